/* c13_io.c -- C13 "corrupt or truncated files are rejected without memory errors or hangs".
   Modes:
     mkcorpus OUTDIR   create a corpus of small valid ADF / HDF5 files (prints "made <file>" ... "done")
     check FILE        cgio_check_file
     cgio  FILE        full recursive walk through the cgio (low level) API
     mll   FILE        broad read through the mid-level library
   Exit code 0 whenever the library returned (success or error); every line is flushed.
   Nothing printed depends on pointers, time, or float formatting. */
#include <stdio.h>
#include <stdlib.h>
#include <string.h>
#include <stdint.h>
#include <unistd.h>
#include "cgnslib.h"
#include "cgns_io.h"
#include "ADF.h"

void __assert_fail(const char *a, const char *f, unsigned int l, const char *fn)
{ printf("ASSERT %s\n", fn ? fn : "?"); fflush(stdout); abort(); }

#define MAXBYTES ((long long)64 * 1024 * 1024)
#define NAMEBUF 33                                   /* 32 + NUL: plain node names */
#define LONGBUF (CG_MAX_GOTO_DEPTH * 33 + 1)         /* family-tree paths / donor names (char_md in the library) */
#define DTBUF 33                                     /* ADF data types may be up to 32 characters */

static int g_normal_end = 0;
static char g_last_error[64] = "";        /* start of the last message given to the error handler */
static void at_exit_note(void)
{
    if (!g_normal_end) {
        /* which exit() of the library it was: cgi_malloc / cgi_realloc report "calloc failed .." / "realloc failed .." first */
        if (!strncmp(g_last_error, "calloc failed", 13) || !strncmp(g_last_error, "realloc failed", 14)) printf("libexit-alloc\n");
        printf("libexit\n"); fflush(stdout);
    }
}

static void out(const char *fmt, ...);
#include <stdarg.h>
static void out(const char *fmt, ...)
{
    va_list ap;
    va_start(ap, fmt);
    vprintf(fmt, ap);
    va_end(ap);
    printf("\n");
    fflush(stdout);
}

/* printable escape of at most maxn bytes of s into a static ring of buffers */
static int esc_keep_space = 0;
static const char *esc_n(const char *s, size_t maxn)
{
    static char ring[8][4 * 1100 + 8];
    static int k = 0;
    char *o = ring[k = (k + 1) % 8], *p = o;
    size_t i;
    if (maxn > 1100) maxn = 1100;
    if (!s) return "(null)";
    if (!*s) return "\\0";
    for (i = 0; i < maxn && s[i]; i++) {
        unsigned char c = (unsigned char)s[i];
        if ((c > 0x20 || (c == 0x20 && esc_keep_space)) && c < 0x7f && c != '\\') *p++ = (char)c;
        else { sprintf(p, "\\x%02X", c); p += 4; }
    }
    *p = 0;
    return o;
}
static const char *esc(const char *s) { return esc_n(s, 1100); }
static const char *esc_msg(const char *s, size_t maxn)      /* messages: spaces stay readable */
{ const char *r; esc_keep_space = 1; r = esc_n(s, maxn); esc_keep_space = 0; return r; }

static unsigned bytesum(const void *buf, size_t n)
{
    const unsigned char *p = (const unsigned char *)buf;
    unsigned s = 0;
    size_t i;
    for (i = 0; i < n; i++) s += p[i];
    return s;
}

/* ===================================================================== mkcorpus */
static int mk_fail = 0;
static int MK(int rc, const char *what)
{ if (rc) { out("mkerr %s %d", what, rc); mk_fail = 1; } return rc; }

static char *pjoin(const char *dir, const char *name)
{
    static char ring[4][2048];
    static int k = 0;
    char *o = ring[k = (k + 1) % 4];
    snprintf(o, 2048, "%s/%s", dir, name);
    return o;
}

static double mknode(int cg, double pid, const char *name, const char *label, const char *dt,
                     int nd, const cgsize_t *dims, const void *data)
{
    double id = 0;
    if (MK(cgio_create_node(cg, pid, name, &id), "create_node")) return 0;
    MK(cgio_set_label(cg, id, label), "set_label");
    if (dt && strcmp(dt, "MT")) {
        MK(cgio_set_dimensions(cg, id, dt, nd, dims), "set_dimensions");
        if (data) MK(cgio_write_all_data(cg, id, data), "write_all_data");
    }
    return id;
}

static const uint64_t r8bits[4] = { 0x3FF0000000000000ULL, 0x4000000000000000ULL,
                                    0x400921FB54442D18ULL, 0xC008000000000000ULL };

static void build_small(int cg, double root)
{
    int a[3] = { 1, 2, 3 };
    cgsize_t d1[1] = { 3 }, d2[2] = { 2, 2 }, d5[1] = { 5 };
    double b;
    mknode(cg, root, "A", "LabelA", "I4", 1, d1, a);
    b = mknode(cg, root, "B", "LabelB", "R8", 2, d2, r8bits);
    mknode(cg, b, "C", "LabelC", "C1", 1, d5, "hello");
}

static int open_w(const char *path, int type, int *cg, double *root)
{
    unlink(path);
    if (MK(cgio_open_file(path, CGIO_MODE_WRITE, type, cg), "open_file")) return 1;
    if (MK(cgio_get_root_id(*cg, root), "get_root_id")) return 1;
    return 0;
}

static void mk_t_small(const char *path)
{
    int cg; double root;
    if (open_w(path, CGIO_FILE_ADF, &cg, &root)) return;
    build_small(cg, root);
    MK(cgio_close_file(cg), "close");
}

static void mk_t_many(const char *path)
{
    int cg, i; double root, n3 = 0, id;
    char nm[16];
    if (open_w(path, CGIO_FILE_ADF, &cg, &root)) return;
    for (i = 1; i <= 11; i++) {
        sprintf(nm, "N%02d", i);
        id = mknode(cg, root, nm, "LabelN", "MT", 0, NULL, NULL);
        if (i == 3) n3 = id;
    }
    mknode(cg, n3, "K1", "LabelK", "MT", 0, NULL, NULL);
    mknode(cg, n3, "K2", "LabelK", "MT", 0, NULL, NULL);
    mknode(cg, n3, "K3", "LabelK", "MT", 0, NULL, NULL);
    MK(cgio_close_file(cg), "close");
}

static void mk_t_links(const char *path)
{
    int cg; double root, id;
    if (open_w(path, CGIO_FILE_ADF, &cg, &root)) return;
    build_small(cg, root);
    MK(cgio_create_link(cg, root, "L1", "", "/B/C", &id), "link L1");
    MK(cgio_create_link(cg, root, "L2", "", "/A", &id), "link L2");
    MK(cgio_create_link(cg, root, "L3", "t_small.adf", "/B", &id), "link L3");
    MK(cgio_create_link(cg, root, "L4", "", "/Nope", &id), "link L4");
    MK(cgio_create_link(cg, root, "L5", "", "/L1", &id), "link L5");
    MK(cgio_close_file(cg), "close");
}

/* links whose text reaches the sizes of the buffers that receive it: file part up to CGIO_MAX_FILE_LENGTH (1024),
   path part up to CGIO_MAX_LINK_LENGTH (4096), text up to 5121 */
static void mk_t_biglinks(const char *path)
{
    int cg; double root, id;
    static char f900[901], f1024[1025], p4000[4001], p4096[4097];
    if (open_w(path, CGIO_FILE_ADF, &cg, &root)) return;
    memset(f900, 'f', 900); memset(f1024, 'g', 1024);
    memset(p4000, 'p', 4000); p4000[0] = '/'; memset(p4096, 'q', 4096); p4096[0] = '/';
    mknode(cg, root, "T", "LabelT", "MT", 0, NULL, NULL);
    MK(cgio_create_link(cg, root, "LA", f900, p4000, &id), "link LA");
    MK(cgio_create_link(cg, root, "LB", f1024, p4096, &id), "link LB");
    MK(cgio_create_link(cg, root, "LC", "", p4096, &id), "link LC");
    MK(cgio_create_link(cg, root, "LD", f1024, "/T", &id), "link LD");
    MK(cgio_close_file(cg), "close");
}

static void mk_t_multi(const char *path)
{
    int cg, i, v[12], r[12]; double root, id = 0;
    cgsize_t d[1];
    FILE *fp;
    if (open_w(path, CGIO_FILE_ADF, &cg, &root)) return;
    for (i = 0; i < 12; i++) v[i] = 101 + i;
    MK(cgio_create_node(cg, root, "D", &id), "create D");
    MK(cgio_set_label(cg, id, "LabelD"), "label D");
    for (i = 4; i <= 12; i += 4) {      /* grow the last dimension and rewrite: each step adds one data chunk */
        d[0] = i;
        MK(cgio_set_dimensions(cg, id, "I4", 1, d), "setdim D");
        MK(cgio_write_all_data(cg, id, v), "write D");
    }
    MK(cgio_close_file(cg), "close");
    /* verify: data reads back and the file carries a data-chunk table */
    if (MK(cgio_open_file(path, CGIO_MODE_READ, CGIO_FILE_NONE, &cg), "reopen multi")) return;
    MK(cgio_get_root_id(cg, &root), "root");
    MK(cgio_get_node_id(cg, root, "D", &id), "find D");
    memset(r, 0, sizeof r);
    MK(cgio_read_all_data_type(cg, id, "I4", r), "read D");
    if (memcmp(r, v, sizeof v)) MK(1, "multi data mismatch");
    MK(cgio_close_file(cg), "close");
    fp = fopen(path, "rb");
    if (fp) {
        static char buf[1 << 16];
        size_t n = fread(buf, 1, sizeof buf, fp), k; int found = 0;
        fclose(fp);
        for (k = 0; k + 4 <= n; k++) if (!memcmp(buf + k, "DCtb", 4)) found++;
        if (!found) MK(1, "multi no DCtb");
    } else MK(1, "multi fopen");
}

static void mk_t_bigc1(const char *path)
{
    int cg, i, one = 7; double root;
    static char big[6000];
    cgsize_t d[1] = { 6000 }, d1[1] = { 1 };
    if (open_w(path, CGIO_FILE_ADF, &cg, &root)) return;
    for (i = 0; i < 6000; i++) big[i] = "abcdefghij"[i % 10];
    mknode(cg, root, "Big", "Descriptor_t", "C1", 1, d, big);
    mknode(cg, root, "S", "LabelS", "I4", 1, d1, &one);
    MK(cgio_close_file(cg), "close");
}

/* legacy ("A" version, ASCII-hex pointers).  cgio refuses CGIO_FILE_ADF2 in a 64-bit build, so the ADF core
   is called directly. */
static void mk_t_legacy(const char *path)
{
    double root, a, b, c; int e = 0;
    int av[3] = { 1, 2, 3 };
    cgsize_t d1[1] = { 3 }, d2[2] = { 2, 2 }, d5[1] = { 5 };
    unlink(path);
    ADF_Database_Open(path, "NEW", "LEGACY", &root, &e); if (MK(e > 0 ? e : 0, "legacy open")) return;
    ADF_Create(root, "A", &a, &e); MK(e > 0 ? e : 0, "legacy create");
    ADF_Set_Label(a, "LabelA", &e); MK(e > 0 ? e : 0, "legacy label");
    ADF_Put_Dimension_Information(a, "I4", 1, d1, &e); MK(e > 0 ? e : 0, "legacy dim");
    ADF_Write_All_Data(a, (const char *)av, &e); MK(e > 0 ? e : 0, "legacy write");
    ADF_Create(root, "B", &b, &e); MK(e > 0 ? e : 0, "legacy create");
    ADF_Set_Label(b, "LabelB", &e); MK(e > 0 ? e : 0, "legacy label");
    ADF_Put_Dimension_Information(b, "R8", 2, d2, &e); MK(e > 0 ? e : 0, "legacy dim");
    ADF_Write_All_Data(b, (const char *)r8bits, &e); MK(e > 0 ? e : 0, "legacy write");
    ADF_Create(b, "C", &c, &e); MK(e > 0 ? e : 0, "legacy create");
    ADF_Set_Label(c, "LabelC", &e); MK(e > 0 ? e : 0, "legacy label");
    ADF_Put_Dimension_Information(c, "C1", 1, d5, &e); MK(e > 0 ? e : 0, "legacy dim");
    ADF_Write_All_Data(c, "hello", &e); MK(e > 0 ? e : 0, "legacy write");
    ADF_Database_Close(root, &e); MK(e > 0 ? e : 0, "legacy close");
}

static void mk_h_small(const char *path, int with_links)
{
    int cg; double root, id;
    int a[3] = { 0x5A5A0001, 0x5A5A0002, 0x5A5A0003 };
    cgsize_t d3[1] = { 3 }, d12[1] = { 12 };
    if (open_w(path, CGIO_FILE_HDF5, &cg, &root)) return;
    mknode(cg, root, "MarkNodeAAAA", "MarkLabelAAAA", "I4", 1, d3, a);
    mknode(cg, root, "MarkNodeBBBB", "MarkLabelBBBB", "C1", 1, d12, "MarkDataCCCC");
    if (with_links) {
        MK(cgio_create_link(cg, root, "MarkLinkDDDD", "", "/MarkNodeBBBB", &id), "hlink D");
        MK(cgio_create_link(cg, root, "MarkLinkEEEE", "h_small2.hdf", "/MarkNodeAAAA", &id), "hlink E");
    }
    MK(cgio_close_file(cg), "close");
}

#define MC(call) MK((call) ? 1 : 0, #call)
static void mllerr(void) { if (mk_fail) out("mkerr cg: %s", esc_msg(cg_get_error(), 150)); }

static void mk_m_struct(const char *path, int ftype, const char *bname, const char *zname)
{
    int fn, B, Z, S, F, BC, DS, I, Fam, FamBC, F2, i;
    cgsize_t size[9] = { 3, 3, 3, 2, 2, 2, 0, 0, 0 };
    double x[27], y[27], z[27], q[27], p[9];
    cgsize_t pr[6] = { 1, 1, 1, 3, 3, 1 };
    cgsize_t r1[6] = { 1, 1, 1, 1, 3, 3 }, r2[6] = { 3, 1, 1, 3, 3, 3 };
    int tr[3] = { 1, 2, 3 }, uarr[4] = { 11, 22, 33, 44 };
    cgsize_t d9[1] = { 9 }, d4[1] = { 4 };
    for (i = 0; i < 27; i++) { x[i] = i % 3; y[i] = (i / 3) % 3; z[i] = i / 9; q[i] = 1 + i; }
    for (i = 0; i < 9; i++) p[i] = 100 + i;
    unlink(path);
    if (MC(cg_set_file_type(ftype))) return;
    if (MC(cg_open(path, CG_MODE_WRITE, &fn))) { mllerr(); return; }
    MC(cg_base_write(fn, bname, 3, 3, &B));
    MC(cg_goto(fn, B, "end"));
    MC(cg_descriptor_write("Info", "corpus file for C13"));
    MC(cg_dataclass_write(CGNS_ENUMV(Dimensional)));
    MC(cg_units_write(CGNS_ENUMV(Kilogram), CGNS_ENUMV(Meter), CGNS_ENUMV(Second), CGNS_ENUMV(Kelvin),
                      CGNS_ENUMV(Degree)));
    MC(cg_convergence_write(5, "L2 norm"));
    MC(cg_simulation_type_write(fn, B, CGNS_ENUMV(NonTimeAccurate)));
    MC(cg_family_write(fn, B, "Fam1", &Fam));
    MC(cg_fambc_write(fn, B, Fam, "FamBC1", CGNS_ENUMV(BCWall), &FamBC));
    MC(cg_goto(fn, B, "Family_t", Fam, "end"));
    MC(cg_node_family_write("SubFam", &F2));
    /* nested user data */
    MC(cg_goto(fn, B, "end"));
    MC(cg_user_data_write("U1"));
    MC(cg_goto(fn, B, "UserDefinedData_t", 1, "end"));
    MC(cg_user_data_write("U2"));
    MC(cg_goto(fn, B, "UserDefinedData_t", 1, "UserDefinedData_t", 1, "end"));
    MC(cg_array_write("UArr", CGNS_ENUMV(Integer), 1, d4, uarr));
    /* zone */
    MC(cg_zone_write(fn, B, zname, size, CGNS_ENUMV(Structured), &Z));
    MC(cg_coord_write(fn, B, Z, CGNS_ENUMV(RealDouble), "CoordinateX", x, &I));
    MC(cg_coord_write(fn, B, Z, CGNS_ENUMV(RealDouble), "CoordinateY", y, &I));
    MC(cg_coord_write(fn, B, Z, CGNS_ENUMV(RealDouble), "CoordinateZ", z, &I));
    MC(cg_sol_write(fn, B, Z, "Sol", CGNS_ENUMV(Vertex), &S));
    MC(cg_field_write(fn, B, Z, S, CGNS_ENUMV(RealDouble), "Density", q, &F));
    MC(cg_boco_write(fn, B, Z, "BC1", CGNS_ENUMV(BCWall), CGNS_ENUMV(PointRange), 2, pr, &BC));
    MC(cg_dataset_write(fn, B, Z, BC, "DS1", CGNS_ENUMV(BCWall), &DS));
    MC(cg_bcdata_write(fn, B, Z, BC, DS, CGNS_ENUMV(Dirichlet)));
    MC(cg_goto(fn, B, "Zone_t", Z, "ZoneBC_t", 1, "BC_t", BC, "BCDataSet_t", DS, "BCData_t",
               (int)CGNS_ENUMV(Dirichlet), "end"));
    MC(cg_array_write("Pressure", CGNS_ENUMV(RealDouble), 1, d9, p));
    MC(cg_1to1_write(fn, B, Z, "Periodic", zname, r1, r2, tr, &I));
    MC(cg_goto(fn, B, "Zone_t", Z, "end"));
    MC(cg_descriptor_write("ZInfo", "zone text"));
    MC(cg_user_data_write("ZU"));
    mllerr();
    MC(cg_close(fn));
}

static void mk_m_unstr(const char *path)
{
    int fn, B, Z, S, BC, D, I, i;
    cgsize_t size[3] = { 8, 1, 0 };
    float x[8], y[8], z[8];
    cgsize_t hexa[8] = { 1, 2, 4, 3, 5, 6, 8, 7 };
    cgsize_t tris[6] = { 1, 2, 3, 2, 4, 3 };
    cgsize_t par[8] = { 1, 1, 0, 0, 5, 5, 0, 0 };
    cgsize_t pl[4] = { 1, 2, 3, 4 };
    cgsize_t d1[1] = { 1 }, d8[1] = { 8 };
    int ival[1] = { 42 }, dval[8] = { 1, 2, 3, 4, 5, 6, 7, 8 };
    for (i = 0; i < 8; i++) { x[i] = (float)(i & 1); y[i] = (float)((i >> 1) & 1); z[i] = (float)(i >> 2); }
    unlink(path);
    if (MC(cg_set_file_type(CG_FILE_ADF))) return;
    if (MC(cg_open(path, CG_MODE_WRITE, &fn))) { mllerr(); return; }
    MC(cg_base_write(fn, "UBase", 3, 3, &B));
    MC(cg_zone_write(fn, B, "UZone", size, CGNS_ENUMV(Unstructured), &Z));
    MC(cg_coord_write(fn, B, Z, CGNS_ENUMV(RealSingle), "CoordinateX", x, &I));
    MC(cg_coord_write(fn, B, Z, CGNS_ENUMV(RealSingle), "CoordinateY", y, &I));
    MC(cg_coord_write(fn, B, Z, CGNS_ENUMV(RealSingle), "CoordinateZ", z, &I));
    MC(cg_section_write(fn, B, Z, "Hexa", CGNS_ENUMV(HEXA_8), 1, 1, 0, hexa, &S));
    MC(cg_section_write(fn, B, Z, "Tris", CGNS_ENUMV(TRI_3), 2, 3, 0, tris, &S));
    MC(cg_parent_data_write(fn, B, Z, S, par));
    MC(cg_boco_write(fn, B, Z, "BCpl", CGNS_ENUMV(BCInflow), CGNS_ENUMV(PointList), 4, pl, &BC));
    MC(cg_discrete_write(fn, B, Z, "Disc", &D));
    MC(cg_goto(fn, B, "Zone_t", Z, "DiscreteData_t", D, "end"));
    MC(cg_array_write("DArr", CGNS_ENUMV(Integer), 1, d8, dval));
    MC(cg_goto(fn, B, "Zone_t", Z, "end"));
    MC(cg_integral_write("Integ"));
    MC(cg_goto(fn, B, "Zone_t", Z, "IntegralData_t", 1, "end"));
    MC(cg_array_write("IArr", CGNS_ENUMV(Integer), 1, d1, ival));
    /* links into m_struct.adf: a GridCoordinates_t link parked under a UserDefinedData_t (resolved when the
       children of that node are classified) and a whole linked zone (functional: read as zone 2 "Zone1"). */
    MC(cg_goto(fn, B, "Zone_t", Z, "end"));
    MC(cg_user_data_write("ULinks"));
    MC(cg_goto(fn, B, "Zone_t", Z, "UserDefinedData_t", 1, "end"));
    MC(cg_link_write("LinkedGC", "m_struct.adf", "/Base/Zone1/GridCoordinates"));
    MC(cg_goto(fn, B, "end"));
    MC(cg_link_write("Zone1", "m_struct.adf", "/Base/Zone1"));
    mllerr();
    MC(cg_close(fn));
}

static int do_mkcorpus(const char *dir)
{
    mk_t_small(pjoin(dir, "t_small.adf"));   out("made t_small.adf");
    mk_t_many(pjoin(dir, "t_many.adf"));     out("made t_many.adf");
    mk_t_links(pjoin(dir, "t_links.adf"));   out("made t_links.adf");
    mk_t_multi(pjoin(dir, "t_multi.adf"));   out("made t_multi.adf");
    mk_t_biglinks(pjoin(dir, "t_biglinks.adf")); out("made t_biglinks.adf");
    mk_t_bigc1(pjoin(dir, "t_bigc1.adf"));   out("made t_bigc1.adf");
    mk_t_legacy(pjoin(dir, "t_legacy.adf")); out("made t_legacy.adf");
    mk_m_struct(pjoin(dir, "m_struct.adf"), CG_FILE_ADF, "Base", "Zone1"); out("made m_struct.adf");
    mk_m_unstr(pjoin(dir, "m_unstr.adf"));   out("made m_unstr.adf");
    mk_h_small(pjoin(dir, "h_small2.hdf"), 0); out("made h_small2.hdf");
    mk_h_small(pjoin(dir, "h_small.hdf"), 1);  out("made h_small.hdf");
    mk_m_struct(pjoin(dir, "h_mll.hdf"), CG_FILE_HDF5, "MarkBaseFFFF", "MarkZoneGGGG"); out("made h_mll.hdf");
    if (mk_fail) { out("mkcorpus FAILED"); return 2; }
    out("done");
    return 0;
}

/* ===================================================================== h5attr
   Replace attribute ATTR of group GROUP by a fixed-length string attribute of LEN characters ('A' ... , NUL
   terminated: type size LEN + 1) -- raw HDF5, nothing of the library under test */
#include "hdf5.h"
static int do_h5attr(const char *file, const char *group, const char *attr, int len)
{
    hid_t f, g, t, sp, a;
    char *val;
    int ok = 0;
    f = H5Fopen(file, H5F_ACC_RDWR, H5P_DEFAULT);
    if (f < 0) { out("h5attr open failed"); return 2; }
    g = H5Gopen2(f, group, H5P_DEFAULT);
    if (g >= 0) {
        if (H5Aexists(g, attr) > 0) H5Adelete(g, attr);
        t = H5Tcopy(H5T_C_S1); H5Tset_size(t, (size_t)len + 1);
        sp = H5Screate(H5S_SCALAR);
        a = H5Acreate2(g, attr, t, sp, H5P_DEFAULT, H5P_DEFAULT);
        val = (char *)calloc((size_t)len + 1, 1);
        memset(val, 'A', (size_t)len);
        if (a >= 0 && val && H5Awrite(a, t, val) >= 0) ok = 1;
        free(val);
        if (a >= 0) H5Aclose(a);
        H5Sclose(sp); H5Tclose(t); H5Gclose(g);
    }
    H5Fclose(f);
    out(ok ? "h5attr done" : "h5attr failed");
    return ok ? 0 : 2;
}

/* ===================================================================== check */
static int do_check(const char *file)
{
    int type = -1, rc;
    rc = cgio_check_file(file, &type);
    out("check rc=%d type=%d", rc, type);
    return 0;
}

/* ===================================================================== cgio walk */
#define MAXDEPTH 40
#define MAXNODES 3000
static int w_cg, w_count = 0, w_stop = 0;

static void EC(const char *fn, int code) { out("e %s %d", fn, code); }

static int type_size(const char *dt)
{
    static const struct { const char *t; int n; } tab[] = {
        { "B1", 1 }, { "C1", 1 }, { "I4", 4 }, { "I8", 8 }, { "U4", 4 }, { "U8", 8 },
        { "R4", 4 }, { "R8", 8 }, { "X4", 8 }, { "X8", 16 }, { NULL, 0 } };
    int i;
    for (i = 0; tab[i].t; i++) if (!strcmp(dt, tab[i].t)) return tab[i].n;
    return 0;
}

/* total byte size, or -1 (not computable / insane) */
static long long total_bytes(int esz, int ndims, const cgsize_t *dims)
{
    long long n = esz;
    int i;
    if (esz <= 0 || ndims < 1 || ndims > CGIO_MAX_DIMENSIONS) return -1;
    for (i = 0; i < ndims; i++) {
        long long d = (long long)dims[i];
        if (d <= 0) return -1;
        if (d > MAXBYTES || n > MAXBYTES) return -2;
        n *= d;
        if (n > MAXBYTES * 4) return -2;
    }
    return n;
}

static void walk(double id, int depth)
{
    char name[NAMEBUF], label[NAMEBUF], dt[DTBUF];
    cgsize_t dims[CGIO_MAX_DIMENSIONS];
    int ndims = -1, nchild = -1, linklen = 0, rc, i, have_dims = 0, have_dt = 0, can_descend = 0;
    char datasum[32];
    char dimtxt[CGIO_MAX_DIMENSIONS * 24 + 8];
    char *names = NULL;
    double *ids = NULL;
    int nret_names = 0, nret_ids = 0;
    cglong_t libsize = 0;

    if (w_stop) return;
    if (w_count >= MAXNODES) { out("limit nodes"); w_stop = 1; return; }
    w_count++;

    memset(name, 0, sizeof name); memset(label, 0, sizeof label); memset(dt, 0, sizeof dt);
    memset(dims, 0, sizeof dims);
    strcpy(datasum, "-");

    if ((rc = cgio_get_name(w_cg, id, name))) { EC("cgio_get_name", rc); strcpy(name, "?"); }
    name[NAMEBUF - 1] = 0;
    if ((rc = cgio_get_label(w_cg, id, label))) { EC("cgio_get_label", rc); strcpy(label, "?"); }
    label[NAMEBUF - 1] = 0;
    if ((rc = cgio_get_data_type(w_cg, id, dt))) { EC("cgio_get_data_type", rc); strcpy(dt, "?"); }
    else have_dt = 1;
    dt[DTBUF - 1] = 0;
    if ((rc = cgio_get_dimensions(w_cg, id, &ndims, dims))) { EC("cgio_get_dimensions", rc); ndims = -1; }
    else have_dims = 1;
    if ((rc = cgio_get_data_size(w_cg, id, &libsize))) EC("cgio_get_data_size", rc);

    /* link info */
    if ((rc = cgio_is_link(w_cg, id, &linklen))) EC("cgio_is_link", rc);
    else if (linklen > 0) {
        int flen = -1, nlen = -1;
        if ((rc = cgio_link_size(w_cg, id, &flen, &nlen))) EC("cgio_link_size", rc);
        else if (flen < 0 || nlen < 0 || flen > 1000000 || nlen > 1000000) out("e linksize_insane");
        else {
            char *lf = (char *)calloc((size_t)flen + 1, 1), *ln = (char *)calloc((size_t)nlen + 1, 1);
            if (lf && ln) {
                if ((rc = cgio_get_link(w_cg, id, lf, ln))) EC("cgio_get_link", rc);
                else {
                    lf[flen] = 0; ln[nlen] = 0;
                    out("l %d %s file=%s path=%s", depth, esc(name), esc(lf), esc(ln));
                }
            }
            free(lf); free(ln);
        }
    }

    /* children */
    if ((rc = cgio_number_children(w_cg, id, &nchild))) { EC("cgio_number_children", rc); nchild = -1; }
    else if (nchild < 0 || nchild > 1000000) { out("e nchildren_insane"); }
    else if (nchild > 0) {
        names = (char *)calloc((size_t)nchild, CGIO_MAX_NAME_LENGTH + 1);
        ids = (double *)calloc((size_t)nchild, sizeof(double));
        if (!names || !ids) { out("e calloc_children"); }
        else {
            int ok = 1;
            if ((rc = cgio_children_names(w_cg, id, 1, nchild, CGIO_MAX_NAME_LENGTH + 1, &nret_names, names))) {
                EC("cgio_children_names", rc); ok = 0;
            }
            if ((rc = cgio_children_ids(w_cg, id, 1, nchild, &nret_ids, ids))) {
                EC("cgio_children_ids", rc); ok = 0;
            }
            if (ok) {
                if (nret_names < 0 || nret_names > nchild || nret_ids < 0 || nret_ids > nchild) {
                    out("e nret_insane"); ok = 0;
                } else if (nret_names != nchild || nret_ids != nchild) out("e nret_short");
            }
            can_descend = ok;
        }
    }

    /* data */
    if (have_dt && have_dims && strcmp(dt, "MT") && strcmp(dt, "LK")) {
        if (ndims < 0 || ndims > CGIO_MAX_DIMENSIONS) out("skipdata ndims");
        else if (ndims == 0) { /* no data */ }
        else {
            int esz = type_size(dt);
            long long nb = total_bytes(esz, ndims, dims);
            if (esz == 0) out("skipdata type");
            else if (nb < 1 || nb > MAXBYTES) out("skipdata size");
            else {
                void *buf = calloc((size_t)nb, 1);
                if (!buf) out("skipdata calloc");
                else {
                    if ((rc = cgio_read_all_data_type(w_cg, id, dt, buf))) EC("cgio_read_all_data_type", rc);
                    else sprintf(datasum, "%u", bytesum(buf, (size_t)nb));
                    {   /* the same values through the block reader and the strided reader, into buffers of the same size */
                        cgsize_t one[CGIO_MAX_DIMENSIONS], count = (cgsize_t)(nb / esz);
                        void *b2 = calloc((size_t)nb, 1), *b3 = calloc((size_t)nb, 1);
                        for (i = 0; i < CGIO_MAX_DIMENSIONS; i++) one[i] = 1;
                        if (b2 && b3) {
                            int rb = cgio_read_block_data_type(w_cg, id, 1, count, dt, b2);
                            int rs = cgio_read_data_type(w_cg, id, one, dims, one, dt, ndims, dims, one, dims, one, b3);
                            if (rb) EC("cgio_read_block_data_type", rb);
                            if (rs) EC("cgio_read_data_type", rs);
                            if (!rc && !rb && memcmp(buf, b2, (size_t)nb)) out("e block_read_differs");
                            if (!rc && !rs && memcmp(buf, b3, (size_t)nb)) out("e strided_read_differs");
                        }
                        free(b2); free(b3);
                    }
                    free(buf);
                }
            }
        }
    }

    dimtxt[0] = 0;
    if (have_dims && ndims >= 0 && ndims <= CGIO_MAX_DIMENSIONS) {
        char *p = dimtxt;
        for (i = 0; i < ndims; i++) p += sprintf(p, "%s%lld", i ? "," : "", (long long)dims[i]);
    }
    if (!dimtxt[0]) strcpy(dimtxt, "-");
    out("n %d %s %s %s %d %s nchild=%d datasum=%s", depth, esc(name), esc(label), esc(dt), ndims, dimtxt,
        nchild, datasum);

    if (can_descend) {
        int n = nret_names < nret_ids ? nret_names : nret_ids;
        for (i = 0; i < n && !w_stop; i++) {
            char cname[CGIO_MAX_NAME_LENGTH + 1];
            double cid = 0;
            memcpy(cname, names + (size_t)i * (CGIO_MAX_NAME_LENGTH + 1), CGIO_MAX_NAME_LENGTH + 1);
            cname[CGIO_MAX_NAME_LENGTH] = 0;
            if ((rc = cgio_get_node_id(w_cg, id, cname, &cid))) {
                out("e cgio_get_node_id %d %s", rc, esc(cname));
            } else {
                char n2[NAMEBUF];
                memset(n2, 0, sizeof n2);
                if ((rc = cgio_get_name(w_cg, cid, n2))) EC("cgio_get_name2", rc);
                else { n2[NAMEBUF - 1] = 0; if (strcmp(n2, cname)) out("e name_mismatch %s %s", esc(cname), esc(n2)); }
                cgio_release_id(w_cg, cid);
            }
            if (depth + 1 > MAXDEPTH) { out("limit depth"); }
            else walk(ids[i], depth + 1);
            cgio_release_id(w_cg, ids[i]);
        }
    }
    free(names); free(ids);
}

static int do_cgio(const char *file)
{
    int rc, ftype = -1;
    double root = 0;
    char ver[CGIO_MAX_VERSION_LENGTH + 1], cd[CGIO_MAX_DATE_LENGTH + 1], md[CGIO_MAX_DATE_LENGTH + 1];
    if ((rc = cgio_open_file(file, CGIO_MODE_READ, CGIO_FILE_NONE, &w_cg))) { out("open err %d", rc); return 0; }
    if ((rc = cgio_get_file_type(w_cg, &ftype))) EC("cgio_get_file_type", rc); else out("filetype %d", ftype);
    memset(ver, 0, sizeof ver); memset(cd, 0, sizeof cd); memset(md, 0, sizeof md);
    if ((rc = cgio_file_version(w_cg, ver, cd, md))) EC("cgio_file_version", rc);   /* dates are not printed */
    if ((rc = cgio_get_root_id(w_cg, &root))) { EC("cgio_get_root_id", rc); }
    else walk(root, 0);
    if ((rc = cgio_close_file(w_cg))) EC("cgio_close_file", rc);
    out("done nodes=%d", w_count);
    return 0;
}

/* ===================================================================== mll */
static int m_fn, m_B;
static char *g_lab[CG_MAX_GOTO_DEPTH + 2];
static int g_num[CG_MAX_GOTO_DEPTH + 2];
static int g_depth = 0;

static void ER(const char *what) { out("e %s", what); }

static void warn_handler(int is_error, char *msg)
{
    if (!is_error) out("w %s", esc_msg(msg, 100));
    else { strncpy(g_last_error, msg ? msg : "", sizeof g_last_error - 1); g_last_error[sizeof g_last_error - 1] = 0; }
}

/* classify a return code: 1 = ok, 0 = not ok (prints `e what` only for CG_ERROR) */
static int OKRC(int rc, const char *what)
{
    if (rc == CG_OK) return 1;
    if (rc == CG_NODE_NOT_FOUND || rc == CG_INCORRECT_PATH) return 0;
    ER(what);
    return 0;
}

static void *xalloc(long long nbytes, const char *what)
{
    void *p;
    if (nbytes < 0 || nbytes > MAXBYTES) { out("e size_insane %s", what); return NULL; }
    p = calloc((size_t)nbytes, 1);       /* exact size; calloc(0) gives a zero-length ASan-guarded block */
    if (!p) out("e calloc %s", what);
    return p;
}

/* checked product of n values each in 1..limit; -1 if insane */
static long long prod(const cgsize_t *v, int n, long long limit)
{
    long long p = 1;
    int i;
    for (i = 0; i < n; i++) {
        long long d = (long long)v[i];
        if (d <= 0 || d > limit) return -1;
        p *= d;
        if (p > limit) return -1;
    }
    return p;
}

static int dtype_size(CGNS_ENUMT(DataType_t) t)
{
    switch (t) {
        case CGNS_ENUMV(Integer): return 4;
        case CGNS_ENUMV(RealSingle): return 4;
        case CGNS_ENUMV(RealDouble): return 8;
        case CGNS_ENUMV(Character): return 1;
        case CGNS_ENUMV(LongInteger): return 8;
        case CGNS_ENUMV(ComplexSingle): return 8;
        case CGNS_ENUMV(ComplexDouble): return 16;
        default: return 0;
    }
}

static int go(void) { return cg_golist(m_fn, m_B, g_depth, g_lab, g_num); }
static int push(const char *label, int num)
{
    if (g_depth >= CG_MAX_GOTO_DEPTH) return 0;
    g_lab[g_depth] = (char *)label; g_num[g_depth] = num; g_depth++;
    return 1;
}
static void pop(void) { if (g_depth > 0) g_depth--; }

static void where_txt(char *o, size_t n)
{
    int i; size_t k = 0;
    o[0] = 0;
    for (i = 0; i < g_depth && k + 48 < n; i++) k += (size_t)snprintf(o + k, n - k, "/%s[%d]", g_lab[i], g_num[i]);
    if (!o[0]) snprintf(o, n, "/");
}

/* things that can hang below (nearly) any node: descriptors, arrays, user data (recursive), link info ... */
static void common_here(int udepth)
{
    char wt[1024];
    int n = 0, i, rc, plen = 0;
    where_txt(wt, sizeof wt);
    if (go() != CG_OK) { out("e goto %s", wt); return; }

    /* link? */
    rc = cg_is_link(&plen);
    if (OKRC(rc, "cg_is_link") && plen > 0) {
        char *lf = NULL, *lp = NULL;
        if (OKRC(cg_link_read(&lf, &lp), "cg_link_read")) {
            out("link %s file=%s path=%s", wt, esc(lf), esc(lp));
            if (lf) cg_free(lf);
            if (lp) cg_free(lp);
        }
    }
    /* descriptors */
    n = 0;
    if (OKRC(cg_ndescriptors(&n), "cg_ndescriptors") && n > 0) {
        out("ndescr %s %d", wt, n);
        for (i = 1; i <= n && i <= 1000; i++) {
            char dn[NAMEBUF]; char *txt = NULL;
            memset(dn, 0, sizeof dn);
            if (OKRC(cg_descriptor_read(i, dn, &txt), "cg_descriptor_read")) {
                out("descr %s len=%lu sum=%u", esc(dn), (unsigned long)(txt ? strlen(txt) : 0),
                    txt ? bytesum(txt, strlen(txt)) : 0);
                if (txt) cg_free(txt);
            }
        }
    }
    /* data class, units, ordinal, grid location, rind */
    {
        CGNS_ENUMT(DataClass_t) dc;
        CGNS_ENUMT(MassUnits_t) um; CGNS_ENUMT(LengthUnits_t) ul; CGNS_ENUMT(TimeUnits_t) ut;
        CGNS_ENUMT(TemperatureUnits_t) uT; CGNS_ENUMT(AngleUnits_t) ua;
        CGNS_ENUMT(GridLocation_t) gl;
        int ord = 0, nun = 0;
        if (OKRC(cg_dataclass_read(&dc), "cg_dataclass_read")) out("dataclass %s %d", wt, (int)dc);
        if (OKRC(cg_nunits(&nun), "cg_nunits") && nun > 0 &&
            OKRC(cg_units_read(&um, &ul, &ut, &uT, &ua), "cg_units_read"))
            out("units %s %d %d %d %d %d", wt, (int)um, (int)ul, (int)ut, (int)uT, (int)ua);
        if (OKRC(cg_ordinal_read(&ord), "cg_ordinal_read")) out("ordinal %s %d", wt, ord);
        if (OKRC(cg_gridlocation_read(&gl), "cg_gridlocation_read")) out("gridloc %s %d", wt, (int)gl);
    }
    /* arrays */
    n = 0;
    if (OKRC(cg_narrays(&n), "cg_narrays") && n > 0) {
        out("narrays %s %d", wt, n);
        for (i = 1; i <= n && i <= 1000; i++) {
            char an[NAMEBUF]; CGNS_ENUMT(DataType_t) t = CGNS_ENUMV(DataTypeNull);
            int nd = -1; cgsize_t dv[CGIO_MAX_DIMENSIONS];
            memset(an, 0, sizeof an); memset(dv, 0, sizeof dv);
            if (!OKRC(cg_array_info(i, an, &t, &nd, dv), "cg_array_info")) continue;
            if (nd == -1 && !an[0]) { out("array_absent %d", i); continue; }   /* CG_OK but nothing returned (BC_t) */
            if (nd < 1 || nd > CGIO_MAX_DIMENSIONS) { out("e size_insane array_ndim"); continue; }
            {
                int es = dtype_size(t), k;
                long long cnt = prod(dv, nd, MAXBYTES);
                char dtx[CGIO_MAX_DIMENSIONS * 24 + 8], *p = dtx;
                void *buf;
                for (k = 0; k < nd; k++) p += sprintf(p, "%s%lld", k ? "," : "", (long long)dv[k]);
                if (es == 0 || cnt < 0 || cnt * es > MAXBYTES) { out("e size_insane array %s", esc(an)); continue; }
                buf = xalloc(cnt * es, "array");
                if (!buf) continue;
                if (OKRC(cg_array_read(i, buf), "cg_array_read"))
                    out("array %s type=%d dims=%s sum=%u", esc(an), (int)t, dtx, bytesum(buf, (size_t)(cnt * es)));
                free(buf);
            }
        }
    }
    /* user data, recursively */
    n = 0;
    if (OKRC(cg_nuser_data(&n), "cg_nuser_data") && n > 0) {
        out("nuser %s %d", wt, n);
        for (i = 1; i <= n && i <= 1000; i++) {
            char un[NAMEBUF];
            memset(un, 0, sizeof un);
            if (go() != CG_OK) { out("e goto %s", wt); break; }
            if (!OKRC(cg_user_data_read(i, un), "cg_user_data_read")) continue;
            out("user %s", esc(un));
            if (udepth < 8 && push("UserDefinedData_t", i)) { common_here(udepth + 1); pop(); }
            else out("limit userdepth");
        }
    }
}

/* common_here below base / zone with a list of (label,num) pairs */
static void at(int udepth_unused, int npairs, ...)
{
    va_list ap; int i, saved = g_depth;
    (void)udepth_unused;
    va_start(ap, npairs);
    for (i = 0; i < npairs; i++) {
        const char *l = va_arg(ap, const char *);
        int k = va_arg(ap, int);
        push(l, k);
    }
    va_end(ap);
    common_here(0);
    g_depth = saved;
}

static void mll_families(int B)
{
    int nfam = 0, F, i;
    if (!OKRC(cg_nfamilies(m_fn, B, &nfam), "cg_nfamilies")) return;
    out("nfamilies %d", nfam);
    for (F = 1; F <= nfam && F <= 1000; F++) {
        char fname[LONGBUF]; int nboco = 0, ngeo = 0, nnames = 0, nsub = 0;
        memset(fname, 0, sizeof fname);
        if (!OKRC(cg_family_read(m_fn, B, F, fname, &nboco, &ngeo), "cg_family_read")) continue;
        out("family %d %s nboco=%d ngeo=%d", F, esc(fname), nboco, ngeo);
        for (i = 1; i <= nboco && i <= 1000; i++) {
            char bn[NAMEBUF]; CGNS_ENUMT(BCType_t) bt;
            memset(bn, 0, sizeof bn);
            if (OKRC(cg_fambc_read(m_fn, B, F, i, bn, &bt), "cg_fambc_read")) out("fambc %s %d", esc(bn), (int)bt);
        }
        for (i = 1; i <= ngeo && i <= 1000; i++) {
            char gn[NAMEBUF], cad[NAMEBUF]; char *gf = NULL; int npart = 0, P;
            memset(gn, 0, sizeof gn); memset(cad, 0, sizeof cad);
            if (!OKRC(cg_geo_read(m_fn, B, F, i, gn, &gf, cad, &npart), "cg_geo_read")) continue;
            out("geo %s file=%s cad=%s npart=%d", esc(gn), esc(gf), esc(cad), npart);
            if (gf) cg_free(gf);
            for (P = 1; P <= npart && P <= 1000; P++) {
                char pn[NAMEBUF];
                memset(pn, 0, sizeof pn);
                if (OKRC(cg_part_read(m_fn, B, F, i, P, pn), "cg_part_read")) out("part %s", esc(pn));
            }
        }
        if (OKRC(cg_nfamily_names(m_fn, B, F, &nnames), "cg_nfamily_names")) {
            for (i = 1; i <= nnames && i <= 1000; i++) {
                char nn[NAMEBUF], ff[LONGBUF];
                memset(nn, 0, sizeof nn); memset(ff, 0, sizeof ff);
                if (OKRC(cg_family_name_read(m_fn, B, F, i, nn, ff), "cg_family_name_read"))
                    out("famname %s %s", esc(nn), esc(ff));
            }
        }
        /* nested families (family tree), one level */
        if (cg_goto(m_fn, B, "Family_t", F, "end") == CG_OK) {
            if (OKRC(cg_node_nfamilies(&nsub), "cg_node_nfamilies") && nsub > 0) {
                out("nsubfam %d", nsub);
                for (i = 1; i <= nsub && i <= 1000; i++) {
                    char sn[LONGBUF]; int nb = 0, ng = 0;
                    memset(sn, 0, sizeof sn);
                    if (OKRC(cg_node_family_read(i, sn, &nb, &ng), "cg_node_family_read"))
                        out("subfam %s nboco=%d ngeo=%d", esc(sn), nb, ng);
                }
            }
        } else ER("goto Family_t");
        g_depth = 0; at(0, 1, "Family_t", F);
    }
}

static void mll_coords(int B, int Z, int idim, const cgsize_t *size)
{
    int ng = 0, nc = 0, G, C, i;
    if (OKRC(cg_ngrids(m_fn, B, Z, &ng), "cg_ngrids")) {
        out("ngrids %d", ng);
        for (G = 1; G <= ng && G <= 1000; G++) {
            char gn[NAMEBUF];
            memset(gn, 0, sizeof gn);
            if (OKRC(cg_grid_read(m_fn, B, Z, G, gn), "cg_grid_read")) out("grid %s", esc(gn));
            g_depth = 0; at(0, 2, "Zone_t", Z, "GridCoordinates_t", G);
        }
    }
    if (!OKRC(cg_ncoords(m_fn, B, Z, &nc), "cg_ncoords")) return;
    out("ncoords %d", nc);
    for (C = 1; C <= nc && C <= 1000; C++) {
        char cn[NAMEBUF]; CGNS_ENUMT(DataType_t) t = CGNS_ENUMV(DataTypeNull);
        cgsize_t rmin[3], rmax[3]; long long cnt; void *buf; int es;
        memset(cn, 0, sizeof cn);
        if (!OKRC(cg_coord_info(m_fn, B, Z, C, &t, cn), "cg_coord_info")) continue;
        if (t != CGNS_ENUMV(RealSingle) && t != CGNS_ENUMV(RealDouble)) t = CGNS_ENUMV(RealDouble);
        es = dtype_size(t);
        cnt = prod(size, idim, 16LL * 1024 * 1024);
        if (cnt < 0) { out("e size_insane coord %s", esc(cn)); continue; }
        for (i = 0; i < idim; i++) { rmin[i] = 1; rmax[i] = size[i]; }
        buf = xalloc(cnt * es, "coord");
        if (!buf) continue;
        if (OKRC(cg_coord_read(m_fn, B, Z, cn, t, rmin, rmax, buf), "cg_coord_read"))
            out("coord %s type=%d n=%lld sum=%u", esc(cn), (int)t, cnt, bytesum(buf, (size_t)(cnt * es)));
        free(buf);
    }
}

static void mll_sections(int B, int Z)
{
    int ns = 0, S;
    if (!OKRC(cg_nsections(m_fn, B, Z, &ns), "cg_nsections")) return;
    out("nsections %d", ns);
    for (S = 1; S <= ns && S <= 1000; S++) {
        char sn[NAMEBUF]; CGNS_ENUMT(ElementType_t) et = CGNS_ENUMV(ElementTypeNull);
        cgsize_t st = 0, en = 0, eds = 0; int nb = 0, pf = 0, poly;
        long long nelem;
        cgsize_t *el = NULL, *off = NULL, *par = NULL;
        memset(sn, 0, sizeof sn);
        if (!OKRC(cg_section_read(m_fn, B, Z, S, sn, &et, &st, &en, &nb, &pf), "cg_section_read")) continue;
        out("section %s type=%d start=%lld end=%lld nbndry=%d parent=%d", esc(sn), (int)et, (long long)st,
            (long long)en, nb, pf);
        g_depth = 0; at(0, 2, "Zone_t", Z, "Elements_t", S);
        if (!OKRC(cg_ElementDataSize(m_fn, B, Z, S, &eds), "cg_ElementDataSize")) continue;
        if (en < st || st < 0 || (long long)en - (long long)st >= 8LL * 1024 * 1024 ||
            eds < 0 || eds > 8LL * 1024 * 1024) { out("e size_insane section %s", esc(sn)); continue; }
        nelem = (long long)en - (long long)st + 1;
        poly = (et == CGNS_ENUMV(MIXED) || et == CGNS_ENUMV(NGON_n) || et == CGNS_ENUMV(NFACE_n));
        el = (cgsize_t *)xalloc((long long)eds * (long long)sizeof(cgsize_t), "elements");
        if (pf) par = (cgsize_t *)xalloc(4 * nelem * (long long)sizeof(cgsize_t), "parent_data");
        if (poly) off = (cgsize_t *)xalloc((nelem + 1) * (long long)sizeof(cgsize_t), "connect_offset");
        if (el && (!pf || par) && (!poly || off)) {
            int rc = poly ? cg_poly_elements_read(m_fn, B, Z, S, el, off, par)
                          : cg_elements_read(m_fn, B, Z, S, el, par);
            if (OKRC(rc, poly ? "cg_poly_elements_read" : "cg_elements_read"))
                out("elements size=%lld sum=%u psum=%u", (long long)eds,
                    bytesum(el, (size_t)eds * sizeof(cgsize_t)),
                    par ? bytesum(par, (size_t)(4 * nelem) * sizeof(cgsize_t)) : 0);
        }
        free(el); free(off); free(par);
    }
}

static void mll_sols(int B, int Z, int idim)
{
    int nsol = 0, S;
    if (!OKRC(cg_nsols(m_fn, B, Z, &nsol), "cg_nsols")) return;
    out("nsols %d", nsol);
    for (S = 1; S <= nsol && S <= 1000; S++) {
        char sn[NAMEBUF]; CGNS_ENUMT(GridLocation_t) loc; int ddim = -1, nf = 0, F, i, have_size = 0;
        cgsize_t dv[CGIO_MAX_DIMENSIONS]; cgsize_t rmin[CGIO_MAX_DIMENSIONS], rmax[CGIO_MAX_DIMENSIONS];
        CGNS_ENUMT(PointSetType_t) pt = CGNS_ENUMV(PointSetTypeNull); cgsize_t np = 0;
        int *rind = NULL;
        memset(sn, 0, sizeof sn); memset(dv, 0, sizeof dv);
        if (!OKRC(cg_sol_info(m_fn, B, Z, S, sn, &loc), "cg_sol_info")) continue;
        out("sol %s loc=%d", esc(sn), (int)loc);
        if (OKRC(cg_sol_ptset_info(m_fn, B, Z, S, &pt, &np), "cg_sol_ptset_info"))
            out("solptset %d %lld", (int)pt, (long long)np);
        if (OKRC(cg_sol_size(m_fn, B, Z, S, &ddim, dv), "cg_sol_size")) {
            if (ddim < 1 || ddim > idim || ddim > 3) out("e size_insane sol_dim");
            else have_size = 1;
        }
        /* core range = size minus rind planes */
        if (have_size) {
            rind = (int *)xalloc((long long)(2 * idim) * (long long)sizeof(int), "rind");
            if (rind && cg_goto(m_fn, B, "Zone_t", Z, "FlowSolution_t", S, "end") == CG_OK) {
                int rc = cg_rind_read(rind);
                if (rc != CG_OK) { if (rc == CG_ERROR) ER("cg_rind_read"); memset(rind, 0, (size_t)(2 * idim) * sizeof(int)); }
            }
            for (i = 0; i < ddim; i++) {
                long long lo = (rind && pt == CGNS_ENUMV(PointSetTypeNull)) ? rind[2 * i] : 0;
                long long hi = (rind && pt == CGNS_ENUMV(PointSetTypeNull)) ? rind[2 * i + 1] : 0;
                long long core = (long long)dv[i] - lo - hi;
                if (lo < 0 || hi < 0 || core < 1 || core > MAXBYTES) { have_size = 0; break; }
                rmin[i] = 1; rmax[i] = (cgsize_t)core;
            }
            if (!have_size) out("e size_insane sol_range");
            free(rind);
        }
        if (OKRC(cg_nfields(m_fn, B, Z, S, &nf), "cg_nfields")) {
            out("nfields %d", nf);
            for (F = 1; F <= nf && F <= 1000; F++) {
                char fnm[NAMEBUF]; CGNS_ENUMT(DataType_t) t = CGNS_ENUMV(DataTypeNull);
                long long cnt; int es; void *buf;
                memset(fnm, 0, sizeof fnm);
                if (!OKRC(cg_field_info(m_fn, B, Z, S, F, &t, fnm), "cg_field_info")) continue;
                if (!have_size) { out("field %s type=%d (not read)", esc(fnm), (int)t); continue; }
                es = dtype_size(t);
                cnt = prod(rmax, ddim, 16LL * 1024 * 1024);
                if (es == 0 || t == CGNS_ENUMV(Character) || cnt < 0) { out("e size_insane field %s", esc(fnm)); continue; }
                buf = xalloc(cnt * es, "field");
                if (!buf) continue;
                if (OKRC(cg_field_read(m_fn, B, Z, S, fnm, t, rmin, rmax, buf), "cg_field_read"))
                    out("field %s type=%d n=%lld sum=%u", esc(fnm), (int)t, cnt, bytesum(buf, (size_t)(cnt * es)));
                free(buf);
            }
        }
        g_depth = 0; at(0, 2, "Zone_t", Z, "FlowSolution_t", S);
    }
}

static void mll_bocos(int B, int Z, int idim)
{
    int nbc = 0, BC;
    if (!OKRC(cg_nbocos(m_fn, B, Z, &nbc), "cg_nbocos")) return;
    out("nbocos %d", nbc);
    if (nbc > 0) { g_depth = 0; at(0, 2, "Zone_t", Z, "ZoneBC_t", 1); }
    for (BC = 1; BC <= nbc && BC <= 1000; BC++) {
        char bn[NAMEBUF]; CGNS_ENUMT(BCType_t) bt; CGNS_ENUMT(PointSetType_t) pt;
        cgsize_t np = 0, nls = 0; CGNS_ENUMT(DataType_t) ndt = CGNS_ENUMV(DataTypeNull); int nds = 0, DS;
        int *nidx; cgsize_t *pnts; void *nl = NULL; CGNS_ENUMT(GridLocation_t) loc;
        int es, ok = 1;
        memset(bn, 0, sizeof bn);
        nidx = (int *)xalloc((long long)idim * (long long)sizeof(int), "NormalIndex");
        if (!nidx) continue;
        if (!OKRC(cg_boco_info(m_fn, B, Z, BC, bn, &bt, &pt, &np, nidx, &nls, &ndt, &nds), "cg_boco_info")) {
            free(nidx); continue;
        }
        out("boco %s type=%d ptset=%d npnts=%lld nls=%lld ndt=%d nds=%d", esc(bn), (int)bt, (int)pt, (long long)np,
            (long long)nls, (int)ndt, nds);
        free(nidx);
        if (OKRC(cg_boco_gridlocation_read(m_fn, B, Z, BC, &loc), "cg_boco_gridlocation_read"))
            out("bocoloc %d", (int)loc);
        es = dtype_size(ndt);
        if (np < 0 || np > 8LL * 1024 * 1024 || nls < 0 || nls > 8LL * 1024 * 1024 || (nls > 0 && es == 0)) {
            out("e size_insane boco %s", esc(bn)); ok = 0;
        }
        if (ok) {
            pnts = (cgsize_t *)xalloc((long long)np * idim * (long long)sizeof(cgsize_t), "boco_pnts");
            if (nls > 0) nl = xalloc((long long)nls * es, "boco_normals");
            if (pnts && (nls == 0 || nl)) {
                if (OKRC(cg_boco_read(m_fn, B, Z, BC, pnts, nl), "cg_boco_read"))
                    out("bocodata sum=%u nsum=%u", bytesum(pnts, (size_t)np * (size_t)idim * sizeof(cgsize_t)),
                        nl ? bytesum(nl, (size_t)nls * (size_t)es) : 0);
            }
            free(pnts); free(nl);
        }
        g_depth = 0; at(0, 3, "Zone_t", Z, "ZoneBC_t", 1, "BC_t", BC);
        for (DS = 1; DS <= nds && DS <= 1000; DS++) {
            char dn[NAMEBUF]; CGNS_ENUMT(BCType_t) dt; int dir = 0, neu = 0;
            memset(dn, 0, sizeof dn);
            if (!OKRC(cg_dataset_read(m_fn, B, Z, BC, DS, dn, &dt, &dir, &neu), "cg_dataset_read")) continue;
            out("dataset %s type=%d dir=%d neu=%d", esc(dn), (int)dt, dir, neu);
            g_depth = 0; at(0, 4, "Zone_t", Z, "ZoneBC_t", 1, "BC_t", BC, "BCDataSet_t", DS);
            if (dir) { g_depth = 0; at(0, 5, "Zone_t", Z, "ZoneBC_t", 1, "BC_t", BC, "BCDataSet_t", DS,
                                       "BCData_t", (int)CGNS_ENUMV(Dirichlet)); }
            if (neu) { g_depth = 0; at(0, 5, "Zone_t", Z, "ZoneBC_t", 1, "BC_t", BC, "BCDataSet_t", DS,
                                       "BCData_t", (int)CGNS_ENUMV(Neumann)); }
        }
    }
}

static void mll_conns(int B, int Z, int idim, int cell_dim)
{
    int n = 0, I;
    if (OKRC(cg_nzconns(m_fn, B, Z, &n), "cg_nzconns")) out("nzconns %d", n);
    n = 0;
    if (OKRC(cg_n1to1(m_fn, B, Z, &n), "cg_n1to1")) {
        out("n1to1 %d", n);
        for (I = 1; I <= n && I <= 1000; I++) {
            char cn[NAMEBUF], dn[LONGBUF];
            cgsize_t *r = (cgsize_t *)xalloc(2LL * idim * (long long)sizeof(cgsize_t), "1to1_range");
            cgsize_t *dr = (cgsize_t *)xalloc(2LL * idim * (long long)sizeof(cgsize_t), "1to1_drange");
            int *tr = (int *)xalloc((long long)idim * (long long)sizeof(int), "1to1_transform");
            memset(cn, 0, sizeof cn); memset(dn, 0, sizeof dn);
            if (r && dr && tr && OKRC(cg_1to1_read(m_fn, B, Z, I, cn, dn, r, dr, tr), "cg_1to1_read")) {
                out("1to1 %s donor=%s sum=%u dsum=%u tsum=%u", esc(cn), esc(dn),
                    bytesum(r, 2 * (size_t)idim * sizeof(cgsize_t)), bytesum(dr, 2 * (size_t)idim * sizeof(cgsize_t)),
                    bytesum(tr, (size_t)idim * sizeof(int)));
            }
            free(r); free(dr); free(tr);
            g_depth = 0; at(0, 3, "Zone_t", Z, "ZoneGridConnectivity_t", 1, "GridConnectivity1to1_t", I);
        }
    }
    n = 0;
    if (OKRC(cg_nconns(m_fn, B, Z, &n), "cg_nconns")) {
        out("nconns %d", n);
        for (I = 1; I <= n && I <= 1000; I++) {
            char cn[NAMEBUF], dn[LONGBUF];
            CGNS_ENUMT(GridLocation_t) loc; CGNS_ENUMT(GridConnectivityType_t) ct;
            CGNS_ENUMT(PointSetType_t) pt, dpt; CGNS_ENUMT(ZoneType_t) dzt = CGNS_ENUMV(ZoneTypeNull);
            CGNS_ENUMT(DataType_t) ddt = CGNS_ENUMV(DataTypeNull);
            cgsize_t np = 0, nd = 0; int didx; cgsize_t *pnts, *dd;
            memset(cn, 0, sizeof cn); memset(dn, 0, sizeof dn);
            if (!OKRC(cg_conn_info(m_fn, B, Z, I, cn, &loc, &ct, &pt, &np, dn, &dzt, &dpt, &ddt, &nd), "cg_conn_info"))
                continue;
            out("conn %s loc=%d type=%d pt=%d np=%lld donor=%s dzt=%d dpt=%d nd=%lld", esc(cn), (int)loc, (int)ct,
                (int)pt, (long long)np, esc(dn), (int)dzt, (int)dpt, (long long)nd);
            if (np < 0 || np > 8LL * 1024 * 1024 || nd < 0 || nd > 8LL * 1024 * 1024) { out("e size_insane conn"); continue; }
            didx = (dzt == CGNS_ENUMV(Structured)) ? cell_dim : 1;
            pnts = (cgsize_t *)xalloc((long long)np * idim * (long long)sizeof(cgsize_t), "conn_pnts");
            dd = (cgsize_t *)xalloc((long long)nd * didx * (long long)sizeof(cgsize_t), "conn_donor");
            if (pnts && dd && OKRC(cg_conn_read(m_fn, B, Z, I, pnts, ddt, dd), "cg_conn_read"))
                out("conndata sum=%u dsum=%u", bytesum(pnts, (size_t)np * (size_t)idim * sizeof(cgsize_t)),
                    bytesum(dd, (size_t)nd * (size_t)didx * sizeof(cgsize_t)));
            free(pnts); free(dd);
            g_depth = 0; at(0, 3, "Zone_t", Z, "ZoneGridConnectivity_t", 1, "GridConnectivity_t", I);
        }
    }
    n = 0;
    if (OKRC(cg_nholes(m_fn, B, Z, &n), "cg_nholes")) out("nholes %d", n);
}

static void mll_zone_misc(int B, int Z)
{
    int n = 0, i;
    if (OKRC(cg_ndiscrete(m_fn, B, Z, &n), "cg_ndiscrete")) {
        out("ndiscrete %d", n);
        for (i = 1; i <= n && i <= 1000; i++) {
            char dn[NAMEBUF];
            memset(dn, 0, sizeof dn);
            if (OKRC(cg_discrete_read(m_fn, B, Z, i, dn), "cg_discrete_read")) out("discrete %s", esc(dn));
            g_depth = 0; at(0, 2, "Zone_t", Z, "DiscreteData_t", i);
        }
    }
    if (cg_goto(m_fn, B, "Zone_t", Z, "end") == CG_OK) {
        char fam[LONGBUF]; int nm = 0;
        n = 0;
        if (OKRC(cg_nintegrals(&n), "cg_nintegrals")) {
            out("nintegrals %d", n);
            for (i = 1; i <= n && i <= 1000; i++) {
                char in[NAMEBUF];
                memset(in, 0, sizeof in);
                if (cg_goto(m_fn, B, "Zone_t", Z, "end") != CG_OK) break;
                if (OKRC(cg_integral_read(i, in), "cg_integral_read")) out("integral %s", esc(in));
                g_depth = 0; at(0, 2, "Zone_t", Z, "IntegralData_t", i);
            }
        }
        if (cg_goto(m_fn, B, "Zone_t", Z, "end") == CG_OK) {
            memset(fam, 0, sizeof fam);
            if (OKRC(cg_famname_read(fam), "cg_famname_read")) out("zonefam %s", esc(fam));
            if (OKRC(cg_nmultifam(&nm), "cg_nmultifam") && nm > 0) out("nmultifam %d", nm);
        }
    } else ER("goto Zone_t");
    n = 0;
    if (OKRC(cg_n_arbitrary_motions(m_fn, B, Z, &n), "cg_n_arbitrary_motions")) {
        out("narbitrary %d", n);
        for (i = 1; i <= n && i <= 1000; i++) {
            char an[NAMEBUF]; CGNS_ENUMT(ArbitraryGridMotionType_t) t;
            memset(an, 0, sizeof an);
            if (OKRC(cg_arbitrary_motion_read(m_fn, B, Z, i, an, &t), "cg_arbitrary_motion_read"))
                out("arbitrary %s %d", esc(an), (int)t);
            g_depth = 0; at(0, 2, "Zone_t", Z, "ArbitraryGridMotion_t", i);
        }
    }
    n = 0;
    if (OKRC(cg_n_rigid_motions(m_fn, B, Z, &n), "cg_n_rigid_motions")) {
        out("nrigid %d", n);
        for (i = 1; i <= n && i <= 1000; i++) {
            char rn[NAMEBUF]; CGNS_ENUMT(RigidGridMotionType_t) t;
            memset(rn, 0, sizeof rn);
            if (OKRC(cg_rigid_motion_read(m_fn, B, Z, i, rn, &t), "cg_rigid_motion_read"))
                out("rigid %s %d", esc(rn), (int)t);
            g_depth = 0; at(0, 2, "Zone_t", Z, "RigidGridMotion_t", i);
        }
    }
    n = 0;
    if (OKRC(cg_nsubregs(m_fn, B, Z, &n), "cg_nsubregs")) out("nsubregs %d", n);
    {
        char zi[NAMEBUF];
        memset(zi, 0, sizeof zi);
        if (OKRC(cg_ziter_read(m_fn, B, Z, zi), "cg_ziter_read")) out("ziter %s", esc(zi));
    }
}

static void mll_zone(int B, int Z, int cell_dim)
{
    char zn[NAMEBUF]; cgsize_t *size; int idim = 0, i;
    CGNS_ENUMT(ZoneType_t) zt = CGNS_ENUMV(ZoneTypeNull);
    char stx[9 * 24 + 8], *p = stx;
    memset(zn, 0, sizeof zn);
    if (!OKRC(cg_index_dim(m_fn, B, Z, &idim), "cg_index_dim")) return;
    if (idim < 1 || idim > 3) { out("e size_insane index_dim"); return; }
    size = (cgsize_t *)xalloc(3LL * idim * (long long)sizeof(cgsize_t), "zone_size");
    if (!size) return;
    if (!OKRC(cg_zone_read(m_fn, B, Z, zn, size), "cg_zone_read")) { free(size); return; }
    if (!OKRC(cg_zone_type(m_fn, B, Z, &zt), "cg_zone_type")) zt = CGNS_ENUMV(ZoneTypeNull);
    for (i = 0; i < 3 * idim; i++) p += sprintf(p, "%s%lld", i ? "," : "", (long long)size[i]);
    out("zone %d %s type=%d idim=%d size=%s", Z, esc(zn), (int)zt, idim, stx);
    g_depth = 0; at(0, 1, "Zone_t", Z);
    mll_coords(B, Z, idim, size);
    mll_sections(B, Z);
    mll_sols(B, Z, idim);
    mll_bocos(B, Z, idim);
    mll_conns(B, Z, idim, cell_dim);
    mll_zone_misc(B, Z);
    free(size);
}

static void mll_base(int B)
{
    char bn[NAMEBUF]; int cd = 0, pd = 0, cd2 = 0, nz = 0, Z, n;
    CGNS_ENUMT(SimulationType_t) st;
    memset(bn, 0, sizeof bn);
    m_B = B;
    if (!OKRC(cg_base_read(m_fn, B, bn, &cd, &pd), "cg_base_read")) return;
    out("base %d %s cell=%d phys=%d", B, esc(bn), cd, pd);
    if (OKRC(cg_cell_dim(m_fn, B, &cd2), "cg_cell_dim") && cd2 != cd) out("e cell_dim_mismatch");
    if (cd < 1 || cd > 3 || pd < 1 || pd > 3) { out("e size_insane base_dims"); return; }
    g_depth = 0; common_here(0);
    if (OKRC(cg_simulation_type_read(m_fn, B, &st), "cg_simulation_type_read")) out("simtype %d", (int)st);
    if (cg_goto(m_fn, B, "end") == CG_OK) {
        int iters = 0; char *nd = NULL, *sd = NULL; int eqd = 0, f1, f2, f3, f4, f5, f6;
        if (OKRC(cg_convergence_read(&iters, &nd), "cg_convergence_read")) {
            out("convergence iters=%d len=%lu", iters, (unsigned long)(nd ? strlen(nd) : 0));
            if (nd) cg_free(nd);
            g_depth = 0; at(0, 1, "ConvergenceHistory_t", 1);
        }
        if (cg_goto(m_fn, B, "end") == CG_OK) {
            if (OKRC(cg_state_read(&sd), "cg_state_read")) {
                out("state len=%lu", (unsigned long)(sd ? strlen(sd) : 0));
                if (sd) cg_free(sd);
            }
            if (OKRC(cg_equationset_read(&eqd, &f1, &f2, &f3, &f4, &f5, &f6), "cg_equationset_read"))
                out("equationset %d %d %d %d %d %d %d", eqd, f1, f2, f3, f4, f5, f6);
            n = 0;
            if (OKRC(cg_nintegrals(&n), "cg_nintegrals")) out("base_nintegrals %d", n);
        }
    } else ER("goto base");
    {
        char bi[NAMEBUF]; int nsteps = 0;
        memset(bi, 0, sizeof bi);
        if (OKRC(cg_biter_read(m_fn, B, bi, &nsteps), "cg_biter_read")) out("biter %s %d", esc(bi), nsteps);
    }
    mll_families(B);
    if (!OKRC(cg_nzones(m_fn, B, &nz), "cg_nzones")) return;
    out("nzones %d", nz);
    for (Z = 1; Z <= nz && Z <= 1000; Z++) mll_zone(B, Z, cd);
    n = 0;
    if (OKRC(cg_n1to1_global(m_fn, B, &n), "cg_n1to1_global")) out("n1to1_global %d", n);
}

static int do_mll(const char *file)
{
    int nb = 0, B, prec = 0, ft = -1;
    float ver = 0;
    cg_error_handler(warn_handler);
    if (cg_open(file, CG_MODE_READ, &m_fn) != CG_OK) { out("open err %s", esc_msg(cg_get_error(), 100)); return 0; }
    if (OKRC(cg_version(m_fn, &ver), "cg_version")) {
        if (ver >= 0.0f && ver < 1000.0f) out("version %d", (int)(ver * 1000 + 0.5));
        else out("version ?");
    }
    if (OKRC(cg_precision(m_fn, &prec), "cg_precision")) out("precision %d", prec);
    if (OKRC(cg_get_file_type(m_fn, &ft), "cg_get_file_type")) out("filetype %d", ft);
    if (OKRC(cg_nbases(m_fn, &nb), "cg_nbases")) {
        out("nbases %d", nb);
        for (B = 1; B <= nb && B <= 1000; B++) mll_base(B);
    }
    if (cg_close(m_fn) != CG_OK) ER("cg_close");
    out("done");
    return 0;
}

int main(int argc, char **argv)
{
    int rc = 0;
    setvbuf(stdout, NULL, _IOLBF, 0);
    atexit(at_exit_note);
    if (argc < 3) { out("usage: c13_io mkcorpus OUTDIR | check FILE | cgio FILE | mll FILE"); g_normal_end = 1; return 2; }
    if (!strcmp(argv[1], "h5attr") && argc >= 6) rc = do_h5attr(argv[2], argv[3], argv[4], atoi(argv[5]));
    else if (!strcmp(argv[1], "mkcorpus")) rc = do_mkcorpus(argv[2]);
    else if (!strcmp(argv[1], "check")) rc = do_check(argv[2]);
    else if (!strcmp(argv[1], "cgio")) rc = do_cgio(argv[2]);
    else if (!strcmp(argv[1], "mll")) rc = do_mll(argv[2]);
    else { out("unknown mode"); rc = 2; }
    g_normal_end = 1;
    fflush(stdout);
    return rc;
}
