! c20f_impl.f90 -- operations of the Fortran driver for the wrappers of cg_ftoc.c / cgio_ftoc.c that src/cgns_f.F90 does NOT declare
! (no interface body: a caller reaches them through an IMPLICIT interface, F77 convention).  For these routines this program
! is the only tie between what a Fortran caller passes and what the C side reads; the kinds used here are the documented ones
! (commented-out interface bodies of cgns_f.F90, the in-tree Fortran tests, the kinds of the C functions): INTEGER(cgsize_t) for
! ranges, sizes, point sets, connectivities, memory dimensions, NormalIndex; default INTEGER for indices, counts, m_numdim, flags;
! INTEGER(cgenum_t) for enumerations.  Array values come from the script and are NOT invariant under a width mix-up.
! Reference: harness/c20f_ref_impl.h (same operation names, same canonical lines).
module c20f_impl
  use c20f_m
  implicit none
  real(c_float) :: f8(8192)
  type mspace
    integer :: nd = 0
    integer(cgsize_t), allocatable :: dims(:), lo(:), hi(:)
  end type
contains

  subroutine tlist(a, n)           ! n values from the script into a fresh zeroed array with 4 guard words
    integer(cgsize_t), allocatable, intent(out) :: a(:)
    integer, intent(in) :: n
    integer :: i
    allocate(a(max(n, 0) + 4)); a = 0
    do i = 1, n
      a(i) = ti()
    end do
  end subroutine

  subroutine zlist(a, n)
    integer(cgsize_t), allocatable, intent(out) :: a(:)
    integer, intent(in) :: n
    allocate(a(max(n, 0) + 4)); a = 0
  end subroutine

  subroutine tms(m)
    type(mspace), intent(out) :: m
    m%nd = int(ti())
    call tlist(m%dims, m%nd); call tlist(m%lo, m%nd); call tlist(m%hi, m%nd)
  end subroutine

  subroutine ddata(kind)           ! dbuf: 4096 doubles, or the same bytes as 8192 floats
    integer(cgenum_t), intent(in) :: kind
    integer :: i
    if (kind == RealSingle) then
      do i = 0, 8191
        f8(i + 1) = real(i * 0.25d0 + 3, c_float)
      end do
      dbuf(1:4096) = transfer(f8, 1.0d0, 4096)
    else
      do i = 0, 4095
        dbuf(i + 1) = i * 0.125d0 + 7
      end do
    end if
  end subroutine

  subroutine hashz(tag, a, n)
    character(len=*), intent(in) :: tag
    integer(cgsize_t), intent(in), target :: a(*)
    integer, intent(in) :: n
    call emit_h64(tag, c20f_fnv(c_loc(a), int(8 * (n + 4), c_size_t)))
  end subroutine

  subroutine hashd(tag, nbytes)
    character(len=*), intent(in) :: tag
    integer, intent(in) :: nbytes
    call emit_h64(tag, c20f_fnv(c_loc(dbuf), int(nbytes, c_size_t)))
  end subroutine

  subroutine narrow(a, n, mt)      ! Integer (32 bit) memory type: the same values as INTEGER(4), in the same storage
    integer(cgsize_t), intent(inout) :: a(:)
    integer, intent(in) :: n
    integer(cgenum_t), intent(in) :: mt
    integer(c_int32_t), allocatable :: a4(:)
    integer :: i, m
    if (mt /= Integer) return
    m = 2 * ((n + 1) / 2)
    allocate(a4(max(m, 2))); a4 = 0
    do i = 1, n
      a4(i) = int(a(i), c_int32_t)
    end do
    if (m > 0) a(1:m / 2) = transfer(a4(1:m), a(1:1), m / 2)
  end subroutine

  ! ------------------------------------------------------------------ coordinates, fields
  subroutine op_coord_partial_write()
    type(fstr) :: n
    integer :: B, Z, C, ier
    integer(cgenum_t) :: ty
    integer(cgsize_t), allocatable :: lo(:), hi(:)
    B = int(ti()); Z = int(ti()); ty = int(ti(), cgenum_t); call ts(n); call tlist(lo, 3); call tlist(hi, 3); call ddata(ty); C = -1
    call cg_coord_partial_write_f(fn, B, Z, ty, n%p, lo, hi, dbuf, C, ier)
    call ier_out(ier); if (ier == 0) call kv('C', int(C, 8)); call nl()
  end subroutine

  subroutine op_coord_general_write()
    type(fstr) :: n
    type(mspace) :: m
    integer :: B, Z, C, ier
    integer(cgenum_t) :: sty, mty
    integer(cgsize_t), allocatable :: lo(:), hi(:)
    B = int(ti()); Z = int(ti()); call ts(n); sty = int(ti(), cgenum_t); call tlist(lo, 3); call tlist(hi, 3)
    mty = int(ti(), cgenum_t); call tms(m); call ddata(mty); C = -1
    call cg_coord_general_write_f(fn, B, Z, n%p, sty, lo, hi, mty, m%nd, m%dims, m%lo, m%hi, dbuf, C, ier)
    call ier_out(ier); if (ier == 0) call kv('C', int(C, 8)); call nl()
  end subroutine

  subroutine op_coord_general_read()
    type(fstr) :: n
    type(mspace) :: m
    integer :: B, Z, ier
    integer(cgenum_t) :: mty
    integer(cgsize_t), allocatable :: lo(:), hi(:)
    B = int(ti()); Z = int(ti()); call ts(n); call tlist(lo, 3); call tlist(hi, 3); mty = int(ti(), cgenum_t); call tms(m); dbuf = 0.0d0
    call cg_coord_general_read_f(fn, B, Z, n%p, lo, hi, mty, m%nd, m%dims, m%lo, m%hi, dbuf, ier)
    call ier_out(ier); if (ier == 0) call hashd('h', 8 * 4096); call nl()
  end subroutine

  subroutine op_field_partial_write()
    type(fstr) :: n
    integer :: B, Z, S, F, ier
    integer(cgenum_t) :: ty
    integer(cgsize_t), allocatable :: lo(:), hi(:)
    B = int(ti()); Z = int(ti()); S = int(ti()); ty = int(ti(), cgenum_t); call ts(n); call tlist(lo, 3); call tlist(hi, 3); call ddata(ty); F = -1
    call cg_field_partial_write_f(fn, B, Z, S, ty, n%p, lo, hi, dbuf, F, ier)
    call ier_out(ier); if (ier == 0) call kv('F', int(F, 8)); call nl()
  end subroutine

  subroutine op_field_general_write()
    type(fstr) :: n
    type(mspace) :: m
    integer :: B, Z, S, F, ier
    integer(cgenum_t) :: sty, mty
    integer(cgsize_t), allocatable :: lo(:), hi(:)
    B = int(ti()); Z = int(ti()); S = int(ti()); call ts(n); sty = int(ti(), cgenum_t); call tlist(lo, 3); call tlist(hi, 3)
    mty = int(ti(), cgenum_t); call tms(m); call ddata(mty); F = -1
    call cg_field_general_write_f(fn, B, Z, S, n%p, sty, lo, hi, mty, m%nd, m%dims, m%lo, m%hi, dbuf, F, ier)
    call ier_out(ier); if (ier == 0) call kv('F', int(F, 8)); call nl()
  end subroutine

  subroutine op_field_general_read()
    type(fstr) :: n
    type(mspace) :: m
    integer :: B, Z, S, ier
    integer(cgenum_t) :: mty
    integer(cgsize_t), allocatable :: lo(:), hi(:)
    B = int(ti()); Z = int(ti()); S = int(ti()); call ts(n); call tlist(lo, 3); call tlist(hi, 3); mty = int(ti(), cgenum_t); call tms(m); dbuf = 0.0d0
    call cg_field_general_read_f(fn, B, Z, S, n%p, lo, hi, mty, m%nd, m%dims, m%lo, m%hi, dbuf, ier)
    call ier_out(ier); if (ier == 0) call hashd('h', 8 * 4096); call nl()
  end subroutine

  ! ------------------------------------------------------------------ element sections
  subroutine op_elements_read()
    integer :: B, Z, E, n, np, ier
    integer(cgsize_t), allocatable :: el(:), p(:)
    B = int(ti()); Z = int(ti()); E = int(ti()); n = int(ti()); np = int(ti()); call zlist(el, n); call zlist(p, np)
    call cg_elements_read_f(fn, B, Z, E, el, p, ier)
    call ier_out(ier)
    if (ier == 0) then
      call hashz('he', el, n); call hashz('hp', p, np)
    end if
    call nl()
  end subroutine

  subroutine op_poly_elements_read()
    integer :: B, Z, E, n, no, np, ier
    integer(cgsize_t), allocatable :: el(:), o(:), p(:)
    B = int(ti()); Z = int(ti()); E = int(ti()); n = int(ti()); no = int(ti()); np = int(ti()); call zlist(el, n); call zlist(o, no); call zlist(p, np)
    call cg_poly_elements_read_f(fn, B, Z, E, el, o, p, ier)
    call ier_out(ier)
    if (ier == 0) then
      call hashz('he', el, n); call hashz('ho', o, no); call hashz('hp', p, np)
    end if
    call nl()
  end subroutine

  subroutine op_poly_section_write()
    type(fstr) :: n
    integer :: B, Z, S, nb, ne, no, ier
    integer(cgenum_t) :: et
    integer(cgsize_t) :: st, en
    integer(cgsize_t), allocatable :: el(:), o(:)
    B = int(ti()); Z = int(ti()); call ts(n); et = int(ti(), cgenum_t); st = ti(); en = ti(); nb = int(ti())
    ne = int(ti()); call tlist(el, ne); no = int(ti()); call tlist(o, no); S = -1
    call cg_poly_section_write_f(fn, B, Z, n%p, et, st, en, nb, el, o, S, ier)
    call ier_out(ier); if (ier == 0) call kv('S', int(S, 8)); call nl()
  end subroutine

  subroutine op_section_general_write()
    type(fstr) :: n
    integer :: B, Z, S, nb, ier
    integer(cgenum_t) :: et, edt
    integer(cgsize_t) :: st, en, esz
    B = int(ti()); Z = int(ti()); call ts(n); et = int(ti(), cgenum_t); edt = int(ti(), cgenum_t); st = ti(); en = ti(); esz = ti(); nb = int(ti()); S = -1
    call cg_section_general_write_f(fn, B, Z, n%p, et, edt, st, en, esz, nb, S, ier)
    call ier_out(ier); if (ier == 0) call kv('S', int(S, 8)); call nl()
  end subroutine

  subroutine op_section_initialize()
    integer :: B, Z, S, ier
    B = int(ti()); Z = int(ti()); S = int(ti())
    call cg_section_initialize_f(fn, B, Z, S, ier)
    call ier_out(ier); call nl()
  end subroutine

  subroutine op_parent_data_write()
    integer :: B, Z, S, n, ier
    integer(cgsize_t), allocatable :: p(:)
    B = int(ti()); Z = int(ti()); S = int(ti()); n = int(ti()); call tlist(p, n)
    call cg_parent_data_write_f(fn, B, Z, S, p, ier)
    call ier_out(ier); call nl()
  end subroutine

  subroutine op_elements_partial_write()
    integer :: B, Z, S, n, ier
    integer(cgsize_t) :: lo, hi
    integer(cgsize_t), allocatable :: el(:)
    B = int(ti()); Z = int(ti()); S = int(ti()); lo = ti(); hi = ti(); n = int(ti()); call tlist(el, n)
    call cg_elements_partial_write_f(fn, B, Z, S, lo, hi, el, ier)
    call ier_out(ier); call nl()
  end subroutine

  subroutine op_elements_general_write()
    integer :: B, Z, S, n, ier
    integer(cgsize_t) :: lo, hi
    integer(cgenum_t) :: mt
    integer(cgsize_t), allocatable :: el(:)
    B = int(ti()); Z = int(ti()); S = int(ti()); lo = ti(); hi = ti(); mt = int(ti(), cgenum_t); n = int(ti()); call tlist(el, n); call narrow(el, n, mt)
    call cg_elements_general_write_f(fn, B, Z, S, lo, hi, mt, el, ier)
    call ier_out(ier); call nl()
  end subroutine

  subroutine op_poly_elements_partial_write()
    integer :: B, Z, S, ne, no, ier
    integer(cgsize_t) :: lo, hi
    integer(cgsize_t), allocatable :: el(:), o(:)
    B = int(ti()); Z = int(ti()); S = int(ti()); lo = ti(); hi = ti(); ne = int(ti()); call tlist(el, ne); no = int(ti()); call tlist(o, no)
    call cg_poly_elements_partial_write_f(fn, B, Z, S, lo, hi, el, o, ier)
    call ier_out(ier); call nl()
  end subroutine

  subroutine op_poly_elements_general_write()
    integer :: B, Z, S, ne, no, ier
    integer(cgsize_t) :: lo, hi
    integer(cgenum_t) :: mt
    integer(cgsize_t), allocatable :: el(:), o(:)
    B = int(ti()); Z = int(ti()); S = int(ti()); lo = ti(); hi = ti(); mt = int(ti(), cgenum_t)
    ne = int(ti()); call tlist(el, ne); no = int(ti()); call tlist(o, no); call narrow(el, ne, mt); call narrow(o, no, mt)
    call cg_poly_elements_general_write_f(fn, B, Z, S, lo, hi, mt, el, o, ier)
    call ier_out(ier); call nl()
  end subroutine

  subroutine op_parent_data_partial_write()
    integer :: B, Z, S, n, ier
    integer(cgsize_t) :: lo, hi
    integer(cgsize_t), allocatable :: p(:)
    B = int(ti()); Z = int(ti()); S = int(ti()); lo = ti(); hi = ti(); n = int(ti()); call tlist(p, n)
    call cg_parent_data_partial_write_f(fn, B, Z, S, lo, hi, p, ier)
    call ier_out(ier); call nl()
  end subroutine

  subroutine op_elements_partial_read()
    integer :: B, Z, S, n, np, ier
    integer(cgsize_t) :: lo, hi
    integer(cgsize_t), allocatable :: el(:), p(:)
    B = int(ti()); Z = int(ti()); S = int(ti()); lo = ti(); hi = ti(); n = int(ti()); np = int(ti()); call zlist(el, n); call zlist(p, np)
    call cg_elements_partial_read_f(fn, B, Z, S, lo, hi, el, p, ier)
    call ier_out(ier)
    if (ier == 0) then
      call hashz('he', el, n); call hashz('hp', p, np)
    end if
    call nl()
  end subroutine

  subroutine op_poly_elements_partial_read()
    integer :: B, Z, S, n, no, np, ier
    integer(cgsize_t) :: lo, hi
    integer(cgsize_t), allocatable :: el(:), o(:), p(:)
    B = int(ti()); Z = int(ti()); S = int(ti()); lo = ti(); hi = ti(); n = int(ti()); no = int(ti()); np = int(ti())
    call zlist(el, n); call zlist(o, no); call zlist(p, np)
    call cg_poly_elements_partial_read_f(fn, B, Z, S, lo, hi, el, o, p, ier)
    call ier_out(ier)
    if (ier == 0) then
      call hashz('he', el, n); call hashz('ho', o, no); call hashz('hp', p, np)
    end if
    call nl()
  end subroutine

  subroutine op_elements_general_read()
    integer :: B, Z, S, n, ier
    integer(cgsize_t) :: lo, hi
    integer(cgenum_t) :: mt
    integer(cgsize_t), allocatable :: el(:)
    B = int(ti()); Z = int(ti()); S = int(ti()); lo = ti(); hi = ti(); mt = int(ti(), cgenum_t); n = int(ti()); call zlist(el, n)
    call cg_elements_general_read_f(fn, B, Z, S, lo, hi, mt, el, ier)
    call ier_out(ier); if (ier == 0) call hashz('he', el, n); call nl()
  end subroutine

  subroutine op_poly_elements_general_read()
    integer :: B, Z, S, n, no, ier
    integer(cgsize_t) :: lo, hi
    integer(cgenum_t) :: mt
    integer(cgsize_t), allocatable :: el(:), o(:)
    B = int(ti()); Z = int(ti()); S = int(ti()); lo = ti(); hi = ti(); mt = int(ti(), cgenum_t); n = int(ti()); no = int(ti()); call zlist(el, n); call zlist(o, no)
    call cg_poly_elements_general_read_f(fn, B, Z, S, lo, hi, mt, el, o, ier)
    call ier_out(ier)
    if (ier == 0) then
      call hashz('he', el, n); call hashz('ho', o, no)
    end if
    call nl()
  end subroutine

  subroutine op_parent_elements_general_read()
    integer :: B, Z, S, n, ier
    integer(cgsize_t) :: lo, hi
    integer(cgenum_t) :: mt
    integer(cgsize_t), allocatable :: el(:)
    B = int(ti()); Z = int(ti()); S = int(ti()); lo = ti(); hi = ti(); mt = int(ti(), cgenum_t); n = int(ti()); call zlist(el, n)
    call cg_parent_elements_general_read_f(fn, B, Z, S, lo, hi, mt, el, ier)
    call ier_out(ier); if (ier == 0) call hashz('he', el, n); call nl()
  end subroutine

  subroutine op_parent_elements_position_general_read()
    integer :: B, Z, S, n, ier
    integer(cgsize_t) :: lo, hi
    integer(cgenum_t) :: mt
    integer(cgsize_t), allocatable :: el(:)
    B = int(ti()); Z = int(ti()); S = int(ti()); lo = ti(); hi = ti(); mt = int(ti(), cgenum_t); n = int(ti()); call zlist(el, n)
    call cg_parent_elements_position_general_read_f(fn, B, Z, S, lo, hi, mt, el, ier)
    call ier_out(ier); if (ier == 0) call hashz('he', el, n); call nl()
  end subroutine

  ! ------------------------------------------------------------------ boundary conditions, grids
  subroutine op_boco_read()
    integer :: B, Z, BC, n, nn, ier
    integer(cgsize_t), allocatable :: p(:)
    B = int(ti()); Z = int(ti()); BC = int(ti()); n = int(ti()); nn = int(ti()); call zlist(p, n); dbuf = 0.0d0
    call cg_boco_read_f(fn, B, Z, BC, p, dbuf, ier)
    call ier_out(ier)
    if (ier == 0) then
      call hashz('hp', p, n); call hashd('hn', 8 * (nn + 4))
    end if
    call nl()
  end subroutine

  subroutine op_boco_normal_write()     ! NormalIndex: INTEGER(cgsize_t) (commented-out interface body, tests/cgwrite.F90)
    integer :: B, Z, BC, flag, ier
    integer(cgenum_t) :: dt
    integer(cgsize_t), allocatable :: ni(:)
    B = int(ti()); Z = int(ti()); BC = int(ti()); call tlist(ni, 3); flag = int(ti()); dt = int(ti(), cgenum_t); call ddata(dt)
    call cg_boco_normal_write_f(fn, B, Z, BC, ni, flag, dt, dbuf, ier)
    call ier_out(ier); call nl()
  end subroutine

  subroutine op_grid_bbox_write()
    integer :: B, Z, G, ier
    integer(cgenum_t) :: dt
    B = int(ti()); Z = int(ti()); G = int(ti()); dt = int(ti(), cgenum_t); call ddata(dt)
    call cg_grid_bounding_box_write_f(fn, B, Z, G, dt, dbuf, ier)
    call ier_out(ier); call nl()
  end subroutine

  subroutine op_grid_bbox_read()
    integer :: B, Z, G, ier
    integer(cgenum_t) :: dt
    B = int(ti()); Z = int(ti()); G = int(ti()); dt = int(ti(), cgenum_t); dbuf = 0.0d0
    call cg_grid_bounding_box_read_f(fn, B, Z, G, dt, dbuf, ier)
    call ier_out(ier); call hashd('h', 8 * 8); call nl()
  end subroutine

  ! ------------------------------------------------------------------ node-context calls
  subroutine op_ptset_write()
    integer :: n, ier
    integer(cgenum_t) :: pt
    integer(cgsize_t) :: np
    integer(cgsize_t), allocatable :: p(:)
    pt = int(ti(), cgenum_t); np = ti(); n = int(ti()); call tlist(p, n)
    call cg_ptset_write_f(pt, np, p, ier)
    call ier_out(ier); call nl()
  end subroutine

  subroutine op_ptset_read()
    integer :: n, ier
    integer(cgsize_t), allocatable :: p(:)
    n = int(ti()); call zlist(p, n)
    call cg_ptset_read_f(p, ier)
    call ier_out(ier); if (ier == 0) call hashz('hp', p, n); call nl()
  end subroutine

  subroutine op_array_read_as()
    integer :: A, n, ier
    integer(cgenum_t) :: ty
    A = int(ti()); ty = int(ti(), cgenum_t); n = int(ti()); dbuf = 0.0d0
    call cg_array_read_as_f(A, ty, dbuf, ier)
    call ier_out(ier); if (ier == 0) call hashd('h', 8 * (n + 4)); call nl()
  end subroutine

  subroutine op_array_general_read()
    type(mspace) :: m
    integer :: A, snd, ier
    integer(cgenum_t) :: mty
    integer(cgsize_t), allocatable :: lo(:), hi(:)
    A = int(ti()); snd = int(ti()); call tlist(lo, snd); call tlist(hi, snd); mty = int(ti(), cgenum_t); call tms(m); dbuf = 0.0d0
    call cg_array_general_read_f(A, lo, hi, mty, m%nd, m%dims, m%lo, m%hi, dbuf, ier)
    call ier_out(ier); if (ier == 0) call hashd('h', 8 * 4096); call nl()
  end subroutine

  subroutine op_array_general_write()
    type(fstr) :: n
    type(mspace) :: m
    integer :: snd, ier
    integer(cgenum_t) :: sty, mty
    integer(cgsize_t), allocatable :: sd(:), lo(:), hi(:)
    call ts(n); sty = int(ti(), cgenum_t); snd = int(ti()); call tlist(sd, snd); call tlist(lo, snd); call tlist(hi, snd)
    mty = int(ti(), cgenum_t); call tms(m); call ddata(mty)
    call cg_array_general_write_f(n%p, sty, snd, sd, lo, hi, mty, m%nd, m%dims, m%lo, m%hi, dbuf, ier)
    call ier_out(ier); call nl()
  end subroutine

  subroutine op_exponents_write()
    integer :: ier
    integer(cgenum_t) :: dt
    dt = int(ti(), cgenum_t); call ddata(dt)
    call cg_exponents_write_f(dt, dbuf, ier)
    call ier_out(ier); call nl()
  end subroutine

  subroutine op_expfull_write()
    integer :: ier
    integer(cgenum_t) :: dt
    dt = int(ti(), cgenum_t); call ddata(dt)
    call cg_expfull_write_f(dt, dbuf, ier)
    call ier_out(ier); call nl()
  end subroutine

  subroutine op_conversion_write()
    integer :: ier
    integer(cgenum_t) :: dt
    dt = int(ti(), cgenum_t); call ddata(dt)
    call cg_conversion_write_f(dt, dbuf, ier)
    call ier_out(ier); call nl()
  end subroutine

  subroutine op_exponents_read()
    integer :: ier
    dbuf = 0.0d0
    call cg_exponents_read_f(dbuf, ier)
    call ier_out(ier); if (ier == 0) call hashd('h', 8 * 12); call nl()
  end subroutine

  subroutine op_expfull_read()
    integer :: ier
    dbuf = 0.0d0
    call cg_expfull_read_f(dbuf, ier)
    call ier_out(ier); if (ier == 0) call hashd('h', 8 * 12); call nl()
  end subroutine

  subroutine op_conversion_read()
    integer :: ier
    dbuf = 0.0d0
    call cg_conversion_read_f(dbuf, ier)
    call ier_out(ier); if (ier == 0) call hashd('h', 8 * 12); call nl()
  end subroutine

  ! ------------------------------------------------------------------ cgio data access
  subroutine op_io_write_block()
    integer :: i, k, ier
    integer(cgsize_t) :: lo, hi
    integer(c_int32_t) :: dat(64)
    i = int(ti()); lo = ti(); hi = ti()
    do k = 0, 63
      dat(k + 1) = 1000 - 3 * k
    end do
    call cgio_write_block_data_f(cgio_n, ids(i), lo, hi, dat, ier)
    call ier_out(ier); call nl()
  end subroutine

  subroutine op_io_read_block()
    type(fstr) :: dt
    integer :: i, ier
    integer(cgsize_t) :: lo, hi
    integer(c_int32_t), target :: dat(80)
    i = int(ti()); lo = ti(); hi = ti(); call ts(dt); dat = 0
    call cgio_read_block_data_type_f(cgio_n, ids(i), lo, hi, dt%p, dat, ier)
    call ier_out(ier); if (ier == 0) call emit_h64('h', c20f_fnv(c_loc(dat), int(4 * 64, c_size_t))); call nl()
  end subroutine

  subroutine op_io_write_data()         ! m_ndims: the C definition reads a cgsize_t here (cgio_read_data_type_f: cgint_f)
    integer :: i, k, ier
    integer(cgsize_t) :: ss, se, st, md, ms, me, mt, mnd
    integer(c_int32_t) :: dat(64)
    i = int(ti()); ss = ti(); se = ti(); st = ti(); md = ti(); ms = ti(); me = ti(); mt = ti(); mnd = 1
    do k = 0, 63
      dat(k + 1) = -500 + 11 * k
    end do
    call cgio_write_data_f(cgio_n, ids(i), ss, se, st, mnd, md, ms, me, mt, dat, ier)
    call ier_out(ier); call nl()
  end subroutine

  subroutine op_io_read_data()
    type(fstr) :: dt
    integer :: i, ier, mnd
    integer(cgsize_t) :: ss, se, st, md, ms, me, mt
    integer(c_int32_t), target :: dat(80)
    i = int(ti()); ss = ti(); se = ti(); st = ti(); call ts(dt); md = ti(); ms = ti(); me = ti(); mt = ti(); mnd = 1; dat = 0
    call cgio_read_data_type_f(cgio_n, ids(i), ss, se, st, dt%p, mnd, md, ms, me, mt, dat, ier)
    call ier_out(ier); if (ier == 0) call emit_h64('h', c20f_fnv(c_loc(dat), int(4 * 64, c_size_t))); call nl()
  end subroutine
end module c20f_impl
