! c20f_extra.f90 -- operations of the Fortran driver that have no twin in harness/c20_wrap.c:
!  (1) the MODULE PROCEDURES of cgns_f.F90 that call the C API directly with their own string conversion
!      (TRIM(name)//C_NULL_CHAR on input, C_F_string_chars / C_F_string_ptr on output): nbases, base_read, nzones,
!      zone_read, ncoords, coord_info, family_write/read, discrete_write/read, narrays, array_info, gopath, geo_write/read,
!      field_id, 1to1_id (wrappers of cg_ftoc.c that harness/c20_wrap.c does not drive),
!      and cg_goto_f / cg_gorel_f with SEVERAL label/index pairs (gotov / gorelv).  Reference: harness/c20f_ref.c.
!  (2) the `dl_*` battery: the same routines called with CHARACTER variables of DECLARED length 1, 8, 31, 32, 33, 40, 80
!      that sit between guard fields of a SEQUENCE derived type, and CHARACTER*(n) ARRAYS for cgio_children_names_f.
!      checks/C20f.py rewrites a dl_ line into the plain operation for the C harness (the value assigned to a
!      CHARACTER(n) variable is the string blank-padded / cut to n).
module c20f_extra
  use c20f_m
  implicit none
  integer, parameter :: NDL = 7
  integer, parameter :: DLLEN(NDL) = (/ 1, 8, 31, 32, 33, 40, 80 /)
  integer, parameter :: MXA = 12
  type dlvars
    sequence
    character(len=64) :: g0
    character(len=1) :: c1
    character(len=64) :: g1
    character(len=8) :: c8
    character(len=64) :: g2
    character(len=31) :: c31
    character(len=64) :: g3
    character(len=32) :: c32
    character(len=64) :: g4
    character(len=33) :: c33
    character(len=64) :: g5
    character(len=40) :: c40
    character(len=64) :: g6
    character(len=80) :: c80
    character(len=64) :: g7
    character(len=80) :: t80
    character(len=64) :: g8
  end type
  type dlarrs
    sequence
    character(len=64) :: g0
    character(len=1) :: a1(MXA)
    character(len=64) :: g1
    character(len=8) :: a8(MXA)
    character(len=64) :: g2
    character(len=31) :: a31(MXA)
    character(len=64) :: g3
    character(len=32) :: a32(MXA)
    character(len=64) :: g4
    character(len=33) :: a33(MXA)
    character(len=64) :: g5
    character(len=40) :: a40(MXA)
    character(len=64) :: g6
    character(len=80) :: a80(MXA)
    character(len=64) :: g7
  end type
  type(dlvars) :: v
  type(dlarrs) :: w
contains

  ! ------------------------------------------------------------------ (1) module procedures of cgns_f.F90
  subroutine op_nbases()
    integer :: n, ier
    n = -1
    call cg_nbases_f(fn, n, ier)
    call ier_out(ier); if (ier == 0) call kv('n', int(n, 8)); call nl()
  end subroutine

  subroutine op_base_read()
    type(fout) :: o
    integer :: B, cd, pd, ier
    B = int(ti()); call fo(o, int(ti())); cd = -1; pd = -1
    call cg_base_read_f(fn, B, o%a(GUARD + 1:GUARD + o%n), cd, pd, ier)
    call ier_out(ier)
    if (ier == 0) then
      call kv('cd', int(cd, 8)); call kv('pd', int(pd, 8))
    end if
    call pf('name', o); call nl()
  end subroutine

  subroutine op_nzones()
    integer :: B, n, ier
    B = int(ti()); n = -1
    call cg_nzones_f(fn, B, n, ier)
    call ier_out(ier); if (ier == 0) call kv('n', int(n, 8)); call nl()
  end subroutine

  subroutine op_zone_read()
    type(fout) :: o
    integer :: B, Z, ier
    integer(cgsize_t) :: sz(9)
    B = int(ti()); Z = int(ti()); call fo(o, int(ti())); sz = 0
    call cg_zone_read_f(fn, B, Z, o%a(GUARD + 1:GUARD + o%n), sz, ier)
    call ier_out(ier)
    if (ier == 0) then
      call kv('s0', int(sz(1), 8)); call kv('s1', int(sz(2), 8)); call kv('s2', int(sz(3), 8))
    end if
    call pf('name', o); call nl()
  end subroutine

  subroutine op_ncoords()
    integer :: B, Z, n, ier
    B = int(ti()); Z = int(ti()); n = -1
    call cg_ncoords_f(fn, B, Z, n, ier)
    call ier_out(ier); if (ier == 0) call kv('n', int(n, 8)); call nl()
  end subroutine

  subroutine op_coord_info()
    type(fout) :: o
    integer :: B, Z, C, ier
    integer(cgenum_t) :: ty
    B = int(ti()); Z = int(ti()); C = int(ti()); call fo(o, int(ti())); ty = 0
    call cg_coord_info_f(fn, B, Z, C, ty, o%a(GUARD + 1:GUARD + o%n), ier)
    call ier_out(ier); if (ier == 0) call kv('t', int(ty, 8)); call pf('name', o); call nl()
  end subroutine

  subroutine op_family_write()
    type(fstr) :: n
    integer :: B, F, ier
    B = int(ti()); call ts(n); F = -1
    call cg_family_write_f(fn, B, n%p, F, ier)
    call ier_out(ier); if (ier == 0) call kv('F', int(F, 8)); call nl()
  end subroutine

  subroutine op_family_read()
    type(fout) :: o
    integer :: B, F, nb, ng, ier
    B = int(ti()); F = int(ti()); call fo(o, int(ti())); nb = -1; ng = -1
    call cg_family_read_f(fn, B, F, o%a(GUARD + 1:GUARD + o%n), nb, ng, ier)
    call ier_out(ier)
    if (ier == 0) then
      call kv('nb', int(nb, 8)); call kv('ng', int(ng, 8))
    end if
    call pf('name', o); call nl()
  end subroutine

  subroutine op_discrete_write()
    type(fstr) :: n
    integer :: B, Z, D, ier
    B = int(ti()); Z = int(ti()); call ts(n); D = -1
    call cg_discrete_write_f(fn, B, Z, n%p, D, ier)
    call ier_out(ier); if (ier == 0) call kv('D', int(D, 8)); call nl()
  end subroutine

  subroutine op_discrete_read()
    type(fout) :: o
    integer :: B, Z, D, ier
    B = int(ti()); Z = int(ti()); D = int(ti()); call fo(o, int(ti()))
    call cg_discrete_read_f(fn, B, Z, D, o%a(GUARD + 1:GUARD + o%n), ier)
    call ier_out(ier); call pf('name', o); call nl()
  end subroutine

  subroutine op_narrays()
    integer :: n, ier
    n = -1
    call cg_narrays_f(n, ier)
    call ier_out(ier); if (ier == 0) call kv('n', int(n, 8)); call nl()
  end subroutine

  subroutine op_array_info()
    type(fout) :: o
    integer :: A, nd, ier
    integer(cgenum_t) :: ty
    integer(cgsize_t) :: dv(12)
    A = int(ti()); call fo(o, int(ti())); ty = 0; nd = -1; dv = 0
    call cg_array_info_f(A, o%a(GUARD + 1:GUARD + o%n), ty, nd, dv, ier)
    call ier_out(ier)
    if (ier == 0) then
      call kv('t', int(ty, 8)); call kv('nd', int(nd, 8)); call kv('d0', int(dv(1), 8))
    end if
    call pf('name', o); call nl()
  end subroutine

  ! cg_field_id_f / cg_1to1_id_f (BIND(C) interface bodies, repaired by 6bd923b): status and "an id was stored"
  subroutine op_field_id()
    integer :: B, Z, S, F, ier, nz
    real(c_double) :: id
    B = int(ti()); Z = int(ti()); S = int(ti()); F = int(ti()); id = 0
    call cg_field_id_f(fn, B, Z, S, F, id, ier)
    nz = 0
    if (id /= 0) nz = 1
    call ier_out(ier); if (ier == 0) call kv('nz', int(nz, 8)); call nl()
  end subroutine

  subroutine op_1to1_id()
    integer :: B, Z, I, ier, nz
    real(c_double) :: id
    B = int(ti()); Z = int(ti()); I = int(ti()); id = 0
    call cg_1to1_id_f(fn, B, Z, I, id, ier)
    nz = 0
    if (id /= 0) nz = 1
    call ier_out(ier); if (ier == 0) call kv('nz', int(nz, 8)); call nl()
  end subroutine

  subroutine op_gopath()
    type(fstr) :: p
    integer :: ier
    call ts(p)
    call cg_gopath_f(fn, p%p, ier)
    call ier_out(ier); call nl()
  end subroutine

  subroutine op_geo_write()
    type(fstr) :: n, f, c
    integer :: B, Fa, G, ier
    B = int(ti()); Fa = int(ti()); call ts(n); call ts(f); call ts(c); G = -1
    call cg_geo_write_f(fn, B, Fa, n%p, f%p, c%p, G, ier)
    call ier_out(ier); if (ier == 0) call kv('G', int(G, 8)); call nl()
  end subroutine

  subroutine op_geo_read()
    type(fout) :: o, o2, o3
    integer :: B, Fa, G, np, ier
    B = int(ti()); Fa = int(ti()); G = int(ti()); call fo(o, int(ti())); call fo(o2, int(ti())); call fo(o3, int(ti())); np = -1
    call cg_geo_read_f(fn, B, Fa, G, o%a(GUARD + 1:GUARD + o%n), o2%a(GUARD + 1:GUARD + o2%n), o3%a(GUARD + 1:GUARD + o3%n), np, ier)
    call ier_out(ier); if (ier == 0) call kv('np', int(np, 8)); call pf('name', o); call pf('file', o2); call pf('cad', o3); call nl()
  end subroutine

  ! where: the position as the LIBRARY reports it (C API cg_where through BIND(C): an observer, not a binding under test)
  subroutine op_where()
    interface
      function c_cg_where(f, B, depth, label, num) bind(C, name="cg_where") result(r)
        import :: c_int, c_ptr
        integer(c_int) :: f, B, depth
        type(c_ptr) :: label(*)
        integer(c_int) :: num(*)
        integer(c_int) :: r
      end function
    end interface
    character(kind=c_char, len=33), target :: lab(20)
    type(c_ptr) :: labs(20)
    integer(c_int) :: f2, B, depth, num(20), r
    integer :: i, n
    f2 = 0; B = 0; depth = 0; num = 0
    do i = 1, 20
      lab(i) = repeat(c_null_char, 33); labs(i) = c_loc(lab(i))
    end do
    r = c_cg_where(f2, B, depth, labs, num)
    call ier_out(int(r))
    if (r == 0) then
      call kv('same', int(merge(1, 0, f2 == fn), 8)); call kv('B', int(B, 8)); call kv('depth', int(depth, 8))
      do i = 1, min(depth, 20)
        n = index(lab(i), c_null_char) - 1
        if (n < 0) n = 33
        call emit(' ' // lab(i)(1:n) // ':'); call emit_i(int(num(i), 8))
      end do
    end if
    call nl()
  end subroutine

  ! ------------------------------------------------------------------ (2) declared-length battery
  subroutine dl_reset()
    v%g0 = repeat(achar(165), 64); v%g1 = v%g0; v%g2 = v%g0; v%g3 = v%g0; v%g4 = v%g0; v%g5 = v%g0; v%g6 = v%g0; v%g7 = v%g0; v%g8 = v%g0
    v%c1 = repeat(achar(126), 1); v%c8 = repeat(achar(126), 8); v%c31 = repeat(achar(126), 31); v%c32 = repeat(achar(126), 32)
    v%c33 = repeat(achar(126), 33); v%c40 = repeat(achar(126), 40); v%c80 = repeat(achar(126), 80); v%t80 = repeat(achar(126), 80)
  end subroutine

  subroutine dl_set(L, s)          ! reset, then Fortran assignment to the CHARACTER(L) variable: blank-pads or cuts
    integer, intent(in) :: L
    character(len=*), intent(in) :: s
    call dl_reset()
    call dl_assign(L, s)
  end subroutine

  subroutine dl_assign(L, s)
    integer, intent(in) :: L
    character(len=*), intent(in) :: s
    select case (L)
    case (1); v%c1 = s
    case (8); v%c8 = s
    case (31); v%c31 = s
    case (32); v%c32 = s
    case (33); v%c33 = s
    case (40); v%c40 = s
    case (80); v%c80 = s
    end select
  end subroutine

  subroutine dl_print_oob(tag, L)  ! only the guard fields around the variable of length L (content varies: dates)
    character(len=*), intent(in) :: tag
    integer, intent(in) :: L
    integer :: p0
    p0 = opos
    call dl_print(tag, L)
    ! keep " tag=" and "/oob:..." , drop the hex content in between
    call strip_hex(p0, len(tag) + 2)
  end subroutine

  subroutine strip_hex(p0, skip)
    integer, intent(in) :: p0, skip
    integer :: a, b
    a = p0 + skip
    b = index(outl(a + 1:opos), '/oob:')
    if (b > 0) then
      outl(a + 1:a + (opos - (a + b - 1))) = outl(a + b:opos)
      opos = a + (opos - (a + b - 1))
    end if
  end subroutine

  subroutine dl_print(tag, L)      ! the variable of length L with the guard fields on either side
    character(len=*), intent(in) :: tag
    integer, intent(in) :: L
    select case (L)
    case (1); call pbytes(tag, v%g0 // v%c1 // v%g1, 1)
    case (8); call pbytes(tag, v%g1 // v%c8 // v%g2, 8)
    case (31); call pbytes(tag, v%g2 // v%c31 // v%g3, 31)
    case (32); call pbytes(tag, v%g3 // v%c32 // v%g4, 32)
    case (33); call pbytes(tag, v%g4 // v%c33 // v%g5, 33)
    case (40); call pbytes(tag, v%g5 // v%c40 // v%g6, 40)
    case (80); call pbytes(tag, v%g6 // v%c80 // v%g7, 80)
    case default; call emit(' ' // tag // '=?')
    end select
  end subroutine

  subroutine op_dl_base()          ! module procedure, CHARACTER(LEN=*) dummy
    type(fstr) :: n
    integer :: L, cd, pd, B, ier
    L = int(ti()); call ts(n); cd = int(ti()); pd = int(ti()); B = 0; ier = -99
    call dl_set(L, n%p)
    select case (L)
    case (1); call cg_base_write_f(fn, v%c1, cd, pd, B, ier)
    case (8); call cg_base_write_f(fn, v%c8, cd, pd, B, ier)
    case (31); call cg_base_write_f(fn, v%c31, cd, pd, B, ier)
    case (32); call cg_base_write_f(fn, v%c32, cd, pd, B, ier)
    case (33); call cg_base_write_f(fn, v%c33, cd, pd, B, ier)
    case (40); call cg_base_write_f(fn, v%c40, cd, pd, B, ier)
    case (80); call cg_base_write_f(fn, v%c80, cd, pd, B, ier)
    end select
    if (ier /= 0) B = 0
    op = 'base'; call ier_out(ier); call kv('B', int(B, 8)); call nl()
  end subroutine

  subroutine op_dl_sol_write()     ! explicit interface, CHARACTER(KIND=C_CHAR), DIMENSION(*) dummy
    type(fstr) :: n
    integer :: B, Z, L, S, ier
    integer(cgenum_t) :: loc
    B = int(ti()); Z = int(ti()); L = int(ti()); call ts(n); loc = int(ti(), cgenum_t); S = -1; ier = -99
    call dl_set(L, n%p)
    select case (L)
    case (1); call cg_sol_write_f(fn, B, Z, v%c1, loc, S, ier)
    case (8); call cg_sol_write_f(fn, B, Z, v%c8, loc, S, ier)
    case (31); call cg_sol_write_f(fn, B, Z, v%c31, loc, S, ier)
    case (32); call cg_sol_write_f(fn, B, Z, v%c32, loc, S, ier)
    case (33); call cg_sol_write_f(fn, B, Z, v%c33, loc, S, ier)
    case (40); call cg_sol_write_f(fn, B, Z, v%c40, loc, S, ier)
    case (80); call cg_sol_write_f(fn, B, Z, v%c80, loc, S, ier)
    end select
    op = 'sol_write'; call ier_out(ier); if (ier == 0) call kv('S', int(S, 8)); call nl()
  end subroutine

  subroutine op_dl_coord_write()   ! implicit interface (no declaration in the module)
    type(fstr) :: n
    integer :: B, Z, L, C, ier, i
    integer(cgenum_t) :: ty
    B = int(ti()); Z = int(ti()); ty = int(ti(), cgenum_t); L = int(ti()); call ts(n); C = -1; ier = -99
    call dl_set(L, n%p)
    if (ty == RealSingle) then
      do i = 0, 4095
        fbuf(i + 1) = real(i * 0.5d0, c_float)
      end do
      dbuf(1:2048) = transfer(fbuf(1:4096), 1.0d0, 2048)
    else
      do i = 0, 4095
        dbuf(i + 1) = i * 0.25d0 + L
      end do
    end if
    select case (L)
    case (1); call cg_coord_write_f(fn, B, Z, ty, v%c1, dbuf, C, ier)
    case (8); call cg_coord_write_f(fn, B, Z, ty, v%c8, dbuf, C, ier)
    case (31); call cg_coord_write_f(fn, B, Z, ty, v%c31, dbuf, C, ier)
    case (32); call cg_coord_write_f(fn, B, Z, ty, v%c32, dbuf, C, ier)
    case (33); call cg_coord_write_f(fn, B, Z, ty, v%c33, dbuf, C, ier)
    case (40); call cg_coord_write_f(fn, B, Z, ty, v%c40, dbuf, C, ier)
    case (80); call cg_coord_write_f(fn, B, Z, ty, v%c80, dbuf, C, ier)
    end select
    op = 'coord_write'; call ier_out(ier); if (ier == 0) call kv('C', int(C, 8)); call nl()
  end subroutine

  subroutine op_dl_descriptor_write()    ! two strings: name CHARACTER(L), text CHARACTER(80)
    type(fstr) :: n, t
    integer :: L, ier
    L = int(ti()); call ts(n); call ts(t); ier = -99
    call dl_set(L, n%p)
    v%t80 = t%p
    select case (L)
    case (1); call cg_descriptor_write_f(v%c1, v%t80, ier)
    case (8); call cg_descriptor_write_f(v%c8, v%t80, ier)
    case (31); call cg_descriptor_write_f(v%c31, v%t80, ier)
    case (32); call cg_descriptor_write_f(v%c32, v%t80, ier)
    case (33); call cg_descriptor_write_f(v%c33, v%t80, ier)
    case (40); call cg_descriptor_write_f(v%c40, v%t80, ier)
    case (80); call cg_descriptor_write_f(v%c80, v%t80, ier)
    end select
    op = 'descriptor_write'; call ier_out(ier); call nl()
  end subroutine

  subroutine op_dl_io_create()
    type(fstr) :: n
    integer :: p, L, ier
    real(c_double) :: id
    p = int(ti()); L = int(ti()); call ts(n); id = 0; ier = -99
    call dl_set(L, n%p)
    select case (L)
    case (1); call cgio_create_node_f(cgio_n, ids(p), v%c1, id, ier)
    case (8); call cgio_create_node_f(cgio_n, ids(p), v%c8, id, ier)
    case (31); call cgio_create_node_f(cgio_n, ids(p), v%c31, id, ier)
    case (32); call cgio_create_node_f(cgio_n, ids(p), v%c32, id, ier)
    case (33); call cgio_create_node_f(cgio_n, ids(p), v%c33, id, ier)
    case (40); call cgio_create_node_f(cgio_n, ids(p), v%c40, id, ier)
    case (80); call cgio_create_node_f(cgio_n, ids(p), v%c80, id, ier)
    end select
    op = 'io_create'; call ier_out(ier)
    if (ier == 0 .and. nids < 64) then
      ids(nids) = id; call kv('idx', int(nids, 8)); nids = nids + 1
    end if
    call nl()
  end subroutine

  subroutine op_dl_goto()          ! label in a CHARACTER(L) variable (trailing blanks), cg_goto_f trims it
    type(fstr) :: n
    integer :: B, L, idx, ier
    B = int(ti()); L = int(ti()); call ts(n); idx = int(ti()); ier = -99
    call dl_set(L, n%p)
    select case (L)
    case (1); call cg_goto_f(fn, B, ier, v%c1, idx, 'end')
    case (8); call cg_goto_f(fn, B, ier, v%c8, idx, 'end')
    case (31); call cg_goto_f(fn, B, ier, v%c31, idx, 'end')
    case (32); call cg_goto_f(fn, B, ier, v%c32, idx, 'end')
    case (33); call cg_goto_f(fn, B, ier, v%c33, idx, 'end')
    case (40); call cg_goto_f(fn, B, ier, v%c40, idx, 'end')
    case (80); call cg_goto_f(fn, B, ier, v%c80, idx, 'end')
    end select
    op = 'gotov'; call ier_out(ier); call nl()
  end subroutine

  subroutine op_dl_sol_info()
    integer :: B, Z, S, L, ier
    integer(cgenum_t) :: loc
    B = int(ti()); Z = int(ti()); S = int(ti()); L = int(ti()); loc = 0; ier = -99
    call dl_reset()
    select case (L)
    case (1); call cg_sol_info_f(fn, B, Z, S, v%c1, loc, ier)
    case (8); call cg_sol_info_f(fn, B, Z, S, v%c8, loc, ier)
    case (31); call cg_sol_info_f(fn, B, Z, S, v%c31, loc, ier)
    case (32); call cg_sol_info_f(fn, B, Z, S, v%c32, loc, ier)
    case (33); call cg_sol_info_f(fn, B, Z, S, v%c33, loc, ier)
    case (40); call cg_sol_info_f(fn, B, Z, S, v%c40, loc, ier)
    case (80); call cg_sol_info_f(fn, B, Z, S, v%c80, loc, ier)
    end select
    op = 'sol_info'; call ier_out(ier); if (ier == 0) call kv('loc', int(loc, 8)); call dl_print('name', L); call nl()
  end subroutine

  subroutine op_dl_section_read()
    integer :: B, Z, E, L, ier, nb, pfl
    integer(cgenum_t) :: et
    integer(cgsize_t) :: st, en
    B = int(ti()); Z = int(ti()); E = int(ti()); L = int(ti()); et = 0; st = 0; en = 0; nb = -1; pfl = -1; ier = -99
    call dl_reset()
    select case (L)
    case (1); call cg_section_read_f(fn, B, Z, E, v%c1, et, st, en, nb, pfl, ier)
    case (8); call cg_section_read_f(fn, B, Z, E, v%c8, et, st, en, nb, pfl, ier)
    case (31); call cg_section_read_f(fn, B, Z, E, v%c31, et, st, en, nb, pfl, ier)
    case (32); call cg_section_read_f(fn, B, Z, E, v%c32, et, st, en, nb, pfl, ier)
    case (33); call cg_section_read_f(fn, B, Z, E, v%c33, et, st, en, nb, pfl, ier)
    case (40); call cg_section_read_f(fn, B, Z, E, v%c40, et, st, en, nb, pfl, ier)
    case (80); call cg_section_read_f(fn, B, Z, E, v%c80, et, st, en, nb, pfl, ier)
    end select
    op = 'section_read'; call ier_out(ier)
    if (ier == 0) then
      call kv('t', int(et, 8)); call kv('s', int(st, 8)); call kv('e', int(en, 8)); call kv('nb', int(nb, 8)); call kv('pf', int(pfl, 8))
    end if
    call dl_print('name', L); call nl()
  end subroutine

  subroutine op_dl_base_read()
    integer :: B, L, cd, pd, ier
    B = int(ti()); L = int(ti()); cd = -1; pd = -1; ier = -99
    call dl_reset()
    select case (L)
    case (1); call cg_base_read_f(fn, B, v%c1, cd, pd, ier)
    case (8); call cg_base_read_f(fn, B, v%c8, cd, pd, ier)
    case (31); call cg_base_read_f(fn, B, v%c31, cd, pd, ier)
    case (32); call cg_base_read_f(fn, B, v%c32, cd, pd, ier)
    case (33); call cg_base_read_f(fn, B, v%c33, cd, pd, ier)
    case (40); call cg_base_read_f(fn, B, v%c40, cd, pd, ier)
    case (80); call cg_base_read_f(fn, B, v%c80, cd, pd, ier)
    end select
    op = 'base_read'; call ier_out(ier)
    if (ier == 0) then
      call kv('cd', int(cd, 8)); call kv('pd', int(pd, 8))
    end if
    call dl_print('name', L); call nl()
  end subroutine

  subroutine op_dl_get_error()
    integer :: L
    L = int(ti())
    call dl_reset()
    select case (L)
    case (1); call cg_get_error_f(v%c1)
    case (8); call cg_get_error_f(v%c8)
    case (31); call cg_get_error_f(v%c31)
    case (32); call cg_get_error_f(v%c32)
    case (33); call cg_get_error_f(v%c33)
    case (40); call cg_get_error_f(v%c40)
    case (80); call cg_get_error_f(v%c80)
    end select
    op = 'get_error'; call emit(trim(op)); call dl_print('msg', L); call nl()
  end subroutine

  subroutine op_dl_io_get_name()
    integer :: i, L, ier
    i = int(ti()); L = int(ti()); ier = -99
    call dl_reset()
    select case (L)
    case (1); call cgio_get_name_f(cgio_n, ids(i), v%c1, ier)
    case (8); call cgio_get_name_f(cgio_n, ids(i), v%c8, ier)
    case (31); call cgio_get_name_f(cgio_n, ids(i), v%c31, ier)
    case (32); call cgio_get_name_f(cgio_n, ids(i), v%c32, ier)
    case (33); call cgio_get_name_f(cgio_n, ids(i), v%c33, ier)
    case (40); call cgio_get_name_f(cgio_n, ids(i), v%c40, ier)
    case (80); call cgio_get_name_f(cgio_n, ids(i), v%c80, ier)
    end select
    op = 'io_get_name'; call ier_out(ier); call dl_print('name', L); call nl()
  end subroutine

  subroutine op_dl_descriptor_read()     ! name CHARACTER(L), text CHARACTER(80)
    integer :: D, L, ier
    D = int(ti()); L = int(ti()); ier = -99
    call dl_reset()
    select case (L)
    case (1); call cg_descriptor_read_f(D, v%c1, v%t80, ier)
    case (8); call cg_descriptor_read_f(D, v%c8, v%t80, ier)
    case (31); call cg_descriptor_read_f(D, v%c31, v%t80, ier)
    case (32); call cg_descriptor_read_f(D, v%c32, v%t80, ier)
    case (33); call cg_descriptor_read_f(D, v%c33, v%t80, ier)
    case (40); call cg_descriptor_read_f(D, v%c40, v%t80, ier)
    case (80); call cg_descriptor_read_f(D, v%c80, v%t80, ier)
    end select
    op = 'descriptor_read'; call ier_out(ier); call dl_print('name', L); call pbytes('text', v%g7 // v%t80 // v%g8, 80); call nl()
  end subroutine

  ! CHARACTER*(L) names(MXA): the array is filled with the canary, the first mx elements with the fill byte
  subroutine op_dl_children_names()
    integer :: i, st, mx, L, nr, ier, k
    character(len=:), allocatable :: flat
    i = int(ti()); st = int(ti()); mx = int(ti()); L = int(ti()); nr = -1; ier = -99
    mx = min(mx, MXA)
    w%g0 = repeat(achar(165), 64); w%g1 = w%g0; w%g2 = w%g0; w%g3 = w%g0; w%g4 = w%g0; w%g5 = w%g0; w%g6 = w%g0; w%g7 = w%g0
    w%a1 = repeat(achar(165), 1); w%a8 = repeat(achar(165), 8); w%a31 = repeat(achar(165), 31); w%a32 = repeat(achar(165), 32)
    w%a33 = repeat(achar(165), 33); w%a40 = repeat(achar(165), 40); w%a80 = repeat(achar(165), 80)
    do k = 1, mx
      w%a1(k) = repeat(achar(126), 1); w%a8(k) = repeat(achar(126), 8); w%a31(k) = repeat(achar(126), 31); w%a32(k) = repeat(achar(126), 32)
      w%a33(k) = repeat(achar(126), 33); w%a40(k) = repeat(achar(126), 40); w%a80(k) = repeat(achar(126), 80)
    end do
    select case (L)
    case (1); call cgio_children_names_f(cgio_n, ids(i), st, mx, L, nr, w%a1, ier); flat = w%g0 // cat1(w%a1) // w%g1
    case (8); call cgio_children_names_f(cgio_n, ids(i), st, mx, L, nr, w%a8, ier); flat = w%g1 // cat1(w%a8) // w%g2
    case (31); call cgio_children_names_f(cgio_n, ids(i), st, mx, L, nr, w%a31, ier); flat = w%g2 // cat1(w%a31) // w%g3
    case (32); call cgio_children_names_f(cgio_n, ids(i), st, mx, L, nr, w%a32, ier); flat = w%g3 // cat1(w%a32) // w%g4
    case (33); call cgio_children_names_f(cgio_n, ids(i), st, mx, L, nr, w%a33, ier); flat = w%g4 // cat1(w%a33) // w%g5
    case (40); call cgio_children_names_f(cgio_n, ids(i), st, mx, L, nr, w%a40, ier); flat = w%g5 // cat1(w%a40) // w%g6
    case (80); call cgio_children_names_f(cgio_n, ids(i), st, mx, L, nr, w%a80, ier); flat = w%g6 // cat1(w%a80) // w%g7
    case default; flat = w%g0 // w%g1
    end select
    op = 'io_children_names'; call ier_out(ier); if (ier == 0) call kv('nr', int(nr, 8)); call pbytes('names', flat, mx * L); call nl()
  end subroutine

  function cat1(a) result(s)       ! the elements of a CHARACTER array, concatenated
    character(len=*), intent(in) :: a(:)
    character(len=:), allocatable :: s
    integer :: k, L
    L = len(a)
    allocate(character(len=L * size(a)) :: s)
    do k = 1, size(a)
      s(L * (k - 1) + 1:L * k) = a(k)
    end do
  end function
end module c20f_extra
