! c20f_mll2.f90 -- mid-level-library operations of the Fortran driver, part 2 (grids, connectivity, 1-to-1 interfaces incl.
! the all-at-once reader with CHARACTER*32 arrays, holes, iterative data, motion, subregions).  Mirrors the `f`
! branches of harness/c20_wrap.c.
module c20f_mll2
  use c20f_m
  implicit none
contains

  subroutine op_grid_write()
    type(fstr) :: n
    integer :: B, Z, G, ier
    B = int(ti()); Z = int(ti()); call ts(n); G = -1
    call cg_grid_write_f(fn, B, Z, n%p, G, ier)
    call ier_out(ier); if (ier == 0) call kv('G', int(G, 8)); call nl()
  end subroutine

  subroutine op_grid_read()
    type(fout) :: o
    integer :: B, Z, G, ier
    B = int(ti()); Z = int(ti()); G = int(ti()); call fo(o, int(ti()))
    call cg_grid_read_f(fn, B, Z, G, o%a(GUARD + 1:GUARD + o%n), ier)
    call ier_out(ier); call pf('name', o); call nl()
  end subroutine

  subroutine op_zconn_write()
    type(fstr) :: n
    integer :: B, Z, C, ier
    B = int(ti()); Z = int(ti()); call ts(n); C = -1
    call cg_zconn_write_f(fn, B, Z, n%p, C, ier)
    call ier_out(ier); if (ier == 0) call kv('C', int(C, 8)); call nl()
  end subroutine

  subroutine op_zconn_read()
    type(fout) :: o
    integer :: B, Z, C, ier
    B = int(ti()); Z = int(ti()); C = int(ti()); call fo(o, int(ti()))
    call cg_zconn_read_f(fn, B, Z, C, o%a(GUARD + 1:GUARD + o%n), ier)
    call ier_out(ier); call pf('name', o); call nl()
  end subroutine

  subroutine op_conn_write_short()
    type(fstr) :: n, dn
    integer :: B, Z, I, ier
    integer(cgenum_t) :: loc, ct, ps
    integer(cgsize_t) :: np, pts(9)
    B = int(ti()); Z = int(ti()); call ts(n); call ts(dn); I = -1
    np = 3; pts = (/ 1, 1, 1, 2, 1, 1, 3, 1, 1 /)
    loc = Vertex; ct = Abutting; ps = PointList
    ! the interface block declares pnts as a SCALAR INTEGER(cgsize_t): the first element is what a caller can pass
    call cg_conn_write_short_f(fn, B, Z, n%p, loc, ct, ps, np, pts(1), dn%p, I, ier)
    call ier_out(ier); if (ier == 0) call kv('I', int(I, 8)); call nl()
  end subroutine

  subroutine op_conn_info()
    type(fout) :: o, o2
    integer :: B, Z, I, ier
    integer(cgenum_t) :: loc, ct, ps, dps, dz, ddt
    integer(cgsize_t) :: np, nd
    B = int(ti()); Z = int(ti()); I = int(ti()); call fo(o, int(ti())); call fo(o2, int(ti()))
    loc = 0; ct = 0; ps = 0; dps = 0; dz = 0; ddt = 0; np = 0; nd = 0
    call cg_conn_info_f(fn, B, Z, I, o%a(GUARD + 1:GUARD + o%n), loc, ct, ps, np, o2%a(GUARD + 1:GUARD + o2%n), dz, dps, ddt, nd, ier)
    call ier_out(ier)
    if (ier == 0) then
      call kv('loc', int(loc, 8)); call kv('ct', int(ct, 8)); call kv('ps', int(ps, 8)); call kv('np', int(np, 8))
      call kv('dz', int(dz, 8)); call kv('dps', int(dps, 8)); call kv('ddt', int(ddt, 8)); call kv('nd', int(nd, 8))
    end if
    call pf('name', o); call pf('donor', o2); call nl()
  end subroutine

  subroutine op_1to1_write()
    type(fstr) :: n, dn
    integer :: B, Z, I, ier, tr(3)
    integer(cgsize_t) :: r(6), dr(6)
    B = int(ti()); Z = int(ti()); call ts(n); call ts(dn); I = -1
    r = (/ 1, 1, 1, 1, 2, 2 /); dr = r; tr = (/ 1, 2, 3 /)
    call cg_1to1_write_f(fn, B, Z, n%p, dn%p, r, dr, tr, I, ier)
    call ier_out(ier); if (ier == 0) call kv('I', int(I, 8)); call nl()
  end subroutine

  subroutine op_1to1_write2()
    type(fstr) :: n, dn
    integer :: B, Z, I, ier, tr(2), v
    integer(cgsize_t) :: r(4), dr(4)
    integer, parameter :: T(2, 0:3) = reshape((/ 1, 2, -2, 1, 2, -1, -1, -2 /), (/ 2, 4 /))
    B = int(ti()); Z = int(ti()); call ts(n); call ts(dn); v = int(ti()); I = -1
    r = (/ 1 + mod(v, 2), 1 + mod(v / 2, 2), 2 + mod(v, 2), 2 + mod(v / 2, 2) /)
    dr = (/ 1 + mod(v, 3), 1 + mod(v / 3, 2), 2 + mod(v, 3), 2 + mod(v / 3, 2) /)
    tr(1) = T(1, iand(v, 3)); tr(2) = T(2, iand(v, 3))
    call cg_1to1_write_f(fn, B, Z, n%p, dn%p, r, dr, tr, I, ier)
    call ier_out(ier); if (ier == 0) call kv('I', int(I, 8)); call nl()
  end subroutine

  subroutine op_1to1_read()
    type(fout) :: o, o2
    integer :: B, Z, I, ier, tr(3)
    integer(cgsize_t) :: r(6), dr(6)
    B = int(ti()); Z = int(ti()); I = int(ti()); call fo(o, int(ti())); call fo(o2, int(ti()))
    r = 0; dr = 0; tr = 0
    call cg_1to1_read_f(fn, B, Z, I, o%a(GUARD + 1:GUARD + o%n), o2%a(GUARD + 1:GUARD + o2%n), r, dr, tr, ier)
    call ier_out(ier)
    if (ier == 0) then
      call kv('tr', int(tr(1), 8)); call emit(','); call emit_i(int(tr(2), 8)); call emit(','); call emit_i(int(tr(3), 8))
      call kv('r5', int(r(6), 8))
    end if
    call pf('name', o); call pf('donor', o2); call nl()
  end subroutine

  subroutine op_n1to1_global()
    integer :: B, n, ier
    B = int(ti()); n = -1
    call cg_n1to1_global_f(fn, B, n, ier)
    call ier_out(ier); if (ier == 0) call kv('n', int(n, 8)); call nl()
  end subroutine

  ! CHARACTER*32 arrays of n elements, each between two guard elements on either side (2 x 32 = GUARD bytes)
  subroutine parr32(tag, a, n)
    character(len=*), intent(in) :: tag
    integer, intent(in) :: n
    character(len=32), intent(in) :: a(-1:n + 2)
    character(len=:), allocatable :: flat
    integer :: k
    allocate(character(len=32 * (n + 4)) :: flat)
    do k = -1, n + 2
      flat(32 * (k + 1) + 1:32 * (k + 2)) = a(k)
    end do
    call pbytes(tag, flat, 32 * n)
  end subroutine

  subroutine op_1to1_read_global()
    integer :: B, n, ier, k
    character(len=32), allocatable :: cn(:), zn(:), dn(:)
    integer(cgsize_t), allocatable, target :: r(:), dr(:)
    integer, allocatable, target :: tr(:)
    B = int(ti()); n = int(ti())
    allocate(cn(-1:n + 2), zn(-1:n + 2), dn(-1:n + 2))
    cn = repeat(achar(165), 32); zn = cn; dn = cn
    do k = 1, n
      cn(k) = repeat(achar(126), 32); zn(k) = cn(k); dn(k) = cn(k)
    end do
    allocate(r(6 * n + 6), dr(6 * n + 6), tr(3 * n + 3))
    r = 0; dr = 0; tr = 0
    call cg_1to1_read_global_f(fn, B, cn(1:n), zn(1:n), dn(1:n), r, dr, tr, ier)
    call ier_out(ier)
    if (ier == 0) then
      call emit_h64('h', c20f_fnv(c_loc(r), int(8 * (6 * n + 6), c_size_t)))
      call emit_h64('hd', c20f_fnv(c_loc(dr), int(8 * (6 * n + 6), c_size_t)))
      call emit_h64('ht', c20f_fnv(c_loc(tr), int(4 * (3 * n + 3), c_size_t)))
    end if
    call parr32('conn', cn, n); call parr32('zone', zn, n); call parr32('donor', dn, n); call nl()
  end subroutine

  subroutine op_hole_write()
    type(fstr) :: n
    integer :: B, Z, I, ier, nps
    integer(cgenum_t) :: loc, ps
    integer(cgsize_t) :: np, pts(6)
    B = int(ti()); Z = int(ti()); call ts(n); I = -1; nps = 1
    np = 2; pts = (/ 1, 1, 1, 2, 2, 2 /); loc = Vertex; ps = PointList
    call cg_hole_write_f(fn, B, Z, n%p, loc, ps, nps, np, pts, I, ier)
    call ier_out(ier); if (ier == 0) call kv('I', int(I, 8)); call nl()
  end subroutine

  subroutine op_hole_info()
    type(fout) :: o
    integer :: B, Z, I, ier
    integer(cgenum_t) :: loc, ps
    integer(cgsize_t) :: np, nps
    B = int(ti()); Z = int(ti()); I = int(ti()); call fo(o, int(ti())); loc = 0; ps = 0; np = 0; nps = -1
    call cg_hole_info_f(fn, B, Z, I, o%a(GUARD + 1:GUARD + o%n), loc, ps, nps, np, ier)
    call ier_out(ier)
    if (ier == 0) then
      call kv('loc', int(loc, 8)); call kv('ps', int(ps, 8)); call kv('nps', int(nps, 8)); call kv('np', int(np, 8))
    end if
    call pf('name', o); call nl()
  end subroutine

  ! ------------------------------------------------------------------ iterative data, motion, subregions
  subroutine op_biter_write()
    type(fstr) :: n
    integer :: B, ns, ier
    B = int(ti()); call ts(n); ns = int(ti())
    call cg_biter_write_f(fn, B, n%p, ns, ier)
    call ier_out(ier); call nl()
  end subroutine

  subroutine op_biter_read()
    type(fout) :: o
    integer :: B, ns, ier
    B = int(ti()); ns = -1; call fo(o, int(ti()))
    call cg_biter_read_f(fn, B, o%a(GUARD + 1:GUARD + o%n), ns, ier)
    call ier_out(ier); if (ier == 0) call kv('ns', int(ns, 8)); call pf('name', o); call nl()
  end subroutine

  subroutine op_ziter_write()
    type(fstr) :: n
    integer :: B, Z, ier
    B = int(ti()); Z = int(ti()); call ts(n)
    call cg_ziter_write_f(fn, B, Z, n%p, ier)
    call ier_out(ier); call nl()
  end subroutine

  subroutine op_ziter_read()
    type(fout) :: o
    integer :: B, Z, ier
    B = int(ti()); Z = int(ti()); call fo(o, int(ti()))
    call cg_ziter_read_f(fn, B, Z, o%a(GUARD + 1:GUARD + o%n), ier)
    call ier_out(ier); call pf('name', o); call nl()
  end subroutine

  subroutine op_rigid_write()
    type(fstr) :: n
    integer :: B, Z, R, ier
    integer(cgenum_t) :: t
    B = int(ti()); Z = int(ti()); call ts(n); t = int(ti(), cgenum_t); R = -1
    call cg_rigid_motion_write_f(fn, B, Z, n%p, t, R, ier)
    call ier_out(ier); if (ier == 0) call kv('R', int(R, 8)); call nl()
  end subroutine

  subroutine op_rigid_read()
    type(fout) :: o
    integer :: B, Z, R, ier
    integer(cgenum_t) :: t
    B = int(ti()); Z = int(ti()); R = int(ti()); call fo(o, int(ti())); t = 0
    call cg_rigid_motion_read_f(fn, B, Z, R, o%a(GUARD + 1:GUARD + o%n), t, ier)
    call ier_out(ier); if (ier == 0) call kv('t', int(t, 8)); call pf('name', o); call nl()
  end subroutine

  subroutine op_arb_write()
    type(fstr) :: n
    integer :: B, Z, A, ier
    integer(cgenum_t) :: t
    B = int(ti()); Z = int(ti()); call ts(n); t = int(ti(), cgenum_t); A = -1
    call cg_arbitrary_motion_write_f(fn, B, Z, n%p, t, A, ier)
    call ier_out(ier); if (ier == 0) call kv('A', int(A, 8)); call nl()
  end subroutine

  subroutine op_arb_read()
    type(fout) :: o
    integer :: B, Z, A, ier
    integer(cgenum_t) :: t
    B = int(ti()); Z = int(ti()); A = int(ti()); call fo(o, int(ti())); t = 0
    call cg_arbitrary_motion_read_f(fn, B, Z, A, o%a(GUARD + 1:GUARD + o%n), t, ier)
    call ier_out(ier); if (ier == 0) call kv('t', int(t, 8)); call pf('name', o); call nl()
  end subroutine

  subroutine op_subreg_bcname_write()
    type(fstr) :: n, bc
    integer :: B, Z, S, dim, ier
    B = int(ti()); Z = int(ti()); call ts(n); dim = int(ti()); call ts(bc); S = -1
    call cg_subreg_bcname_write_f(fn, B, Z, n%p, dim, bc%p, S, ier)
    call ier_out(ier); if (ier == 0) call kv('S', int(S, 8)); call nl()
  end subroutine

  subroutine op_subreg_info()
    type(fout) :: o
    integer :: B, Z, S, ier, dim, bl, gl
    integer(cgenum_t) :: loc, ps
    integer(cgsize_t) :: np
    B = int(ti()); Z = int(ti()); S = int(ti()); call fo(o, int(ti())); loc = 0; ps = 0; np = 0; dim = -1; bl = -1; gl = -1
    call cg_subreg_info_f(fn, B, Z, S, o%a(GUARD + 1:GUARD + o%n), dim, loc, ps, np, bl, gl, ier)
    call ier_out(ier)
    if (ier == 0) then
      call kv('dim', int(dim, 8)); call kv('loc', int(loc, 8)); call kv('ps', int(ps, 8)); call kv('np', int(np, 8))
      call kv('bl', int(bl, 8)); call kv('gl', int(gl, 8))
    end if
    call pf('name', o); call nl()
  end subroutine

  subroutine op_subreg_bcname_read()
    type(fout) :: o
    integer :: B, Z, S, ier
    B = int(ti()); Z = int(ti()); S = int(ti()); call fo(o, int(ti()))
    call cg_subreg_bcname_read_f(fn, B, Z, S, o%a(GUARD + 1:GUARD + o%n), ier)
    call ier_out(ier); call pf('bcname', o); call nl()
  end subroutine
end module c20f_mll2
