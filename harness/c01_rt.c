/* c01_rt.c -- implementation-side driver of property C01 (what is written through the mid-level API is read back
 * identically after reopen).
 *
 * Script (one command per line, blank separated words; names, strings and data are hex, "-" = empty):
 *   ft adf|hdf5                      cg_set_file_type
 *   cfg <name> <v1> [<v2>]           cg_configure (compress, diskless, diskless_write, diskless_incr, alignment, md_block,
 *                                    buffer, sieve, reset)                                 -> "c <status>"
 *   open w|r <file> ; close          -> "c <status>"
 *   call <fn> <path|-> <name|-> <ints csv|-> <strs hex;hex|-> [<dt>:<dims csv>:<data hex>]...
 *        one mid-level write call; <path> = <kind>:<index>/... gives the index arguments (B, Z, S ...) or, for
 *        node-context functions, the cg_goto position              -> "i <returned index>" | "i -" | "i fail <status>"
 *   callp <axis>:<cuts csv|->:<order csv>:<lo csv>:<g|p> <fn> <path> <name> <ints> <strs> <arr>...
 *        the SAME entity as `call`, produced another way: the array (coord / field / array / section connectivity) is
 *        written in slabs along <axis> (cut positions, slab order, file-space lower index per dimension) through
 *        cg_*_general_write with a memory sub-range (g) or cg_*_partial_write with a contiguous slab (p, last axis);
 *        sections: cg_section_partial_write + cg_elements_partial_write per element range
 *   dump <file>                      low-level walk of the file through cgio, children in file order:
 *                                    "N <path of hex names> <label hex> <type> <dims> <data hex>", then "E dump <status>"
 *   read <file>                      cg_open (CG_MODE_READ) and EVERYTHING the API reports, one line per entity:
 *                                    "R <path of kind:index> <name hex> <payload>", then "E read <status>"
 *        payload = none | str:<hex> | enum:<i> | enums:<csv> | ints:<dims>:<vals> | arr:<type>:<dims>:<data hex>
 * Never prints floats as decimals, pointers, ids or error texts (stderr with C01_DEBUG). */
#include <stdio.h>
#include <stdlib.h>
#include <string.h>
#include "cgnslib.h"
#include "cgns_io.h"

static int fn = -1;
static int opt_multifam;        /* read AdditionalFamilyName_t under Family_t (cg_nmultifam refuses that position today) */
static int opt_pz_multifam;     /* ... under ParticleZone_t (cg_nmultifam refuses that position today) */
static int opt_slab_index;      /* the index output of EVERY slab call must designate the array (not only of the call that creates it) */
static int slab_first;
static void slab_index(int k, int o, int *out) { if (k == 0) { slab_first = o; *out = o; } else if (o != slab_first) *out = o; }
static int opt_pz_int;          /* IntegralData_t under ParticleZone_t (cg_nintegrals refuses that position today) */
static char *W[4096];
static int NW;
static int dbg;

#define ERR(rc, what) do { if (dbg && (rc)) fprintf(stderr, "[%s] -> %d: %s\n", what, rc, cg_get_error()); } while (0)

/* ------------------------------------------------------------------------------------------------ parsing */
static int split(char *line)
{
    NW = 0;
    for (char *p = strtok(line, " \t\r\n"); p && NW < 4096; p = strtok(NULL, " \t\r\n")) W[NW++] = p;
    return NW;
}
static int hv(int c) { return c <= '9' ? c - '0' : (c | 32) - 'a' + 10; }
static unsigned char *unhex(const char *s, size_t *n)
{
    size_t l = (strcmp(s, "-") && strcmp(s, "_")) ? strlen(s) / 2 : 0;      /* "-" = absent, "_" = the empty string */
    unsigned char *b = (unsigned char *)calloc(l + 8, 1);
    for (size_t i = 0; i < l; i++) b[i] = (unsigned char)(hv(s[2 * i]) * 16 + hv(s[2 * i + 1]));
    if (n) *n = l;
    return b;
}
static char *unhexs(const char *s) { return (char *)unhex(s, NULL); }
static void hex(const void *p, size_t n)
{
    const unsigned char *b = (const unsigned char *)p;
    if (!n) { printf("-"); return; }
    for (size_t i = 0; i < n; i++) printf("%02x", b[i]);
}
static void hexs(const char *s) { hex(s, strlen(s)); }
static long long *csv(const char *s, int *n)
{
    int cnt = 0, cap = 16;
    long long *v = (long long *)calloc(cap, sizeof *v);
    if (strcmp(s, "-")) {
        const char *p = s;
        while (*p) {
            char *e;
            if (cnt == cap) { cap *= 2; v = (long long *)realloc(v, cap * sizeof *v); }
            v[cnt++] = strtoll(p, &e, 10);
            p = *e == ',' ? e + 1 : e;
        }
    }
    *n = cnt;
    return v;
}
struct arr { char dt[4]; int nd; cgsize_t dims[12]; unsigned char *data; size_t nbytes; };
static void parse_arr(const char *w, struct arr *a)
{
    char *c = strdup(w), *p1 = strchr(c, ':'), *p2 = p1 ? strchr(p1 + 1, ':') : NULL;
    memset(a, 0, sizeof *a);
    if (!p1 || !p2) return;
    *p1 = 0; *p2 = 0;
    strncpy(a->dt, c, 3);
    int n; long long *d = csv(p1 + 1, &n);
    a->nd = n;
    for (int i = 0; i < n && i < 12; i++) a->dims[i] = (cgsize_t)d[i];
    a->data = unhex(p2 + 1, &a->nbytes);
    free(d); free(c);
}
static CGNS_ENUMT(DataType_t) dtype_of(const char *dt)
{
    if (!strcmp(dt, "I4")) return CGNS_ENUMV(Integer);
    if (!strcmp(dt, "I8")) return CGNS_ENUMV(LongInteger);
    if (!strcmp(dt, "R4")) return CGNS_ENUMV(RealSingle);
    if (!strcmp(dt, "R8")) return CGNS_ENUMV(RealDouble);
    if (!strcmp(dt, "C1")) return CGNS_ENUMV(Character);
    if (!strcmp(dt, "X4")) return CGNS_ENUMV(ComplexSingle);
    if (!strcmp(dt, "X8")) return CGNS_ENUMV(ComplexDouble);
    return CGNS_ENUMV(DataTypeNull);
}
static const char *dt_name(CGNS_ENUMT(DataType_t) t)
{
    switch (t) {
    case CGNS_ENUMV(Integer): return "I4";
    case CGNS_ENUMV(LongInteger): return "I8";
    case CGNS_ENUMV(RealSingle): return "R4";
    case CGNS_ENUMV(RealDouble): return "R8";
    case CGNS_ENUMV(Character): return "C1";
    case CGNS_ENUMV(ComplexSingle): return "X4";
    case CGNS_ENUMV(ComplexDouble): return "X8";
    default: return "??";
    }
}
static size_t dt_bytes(CGNS_ENUMT(DataType_t) t)
{
    switch (t) {
    case CGNS_ENUMV(Integer): case CGNS_ENUMV(RealSingle): return 4;
    case CGNS_ENUMV(LongInteger): case CGNS_ENUMV(RealDouble): case CGNS_ENUMV(ComplexSingle): return 8;
    case CGNS_ENUMV(ComplexDouble): return 16;
    default: return 1;
    }
}

/* ------------------------------------------------------------------------------------------------ paths */
#define MAXD 24
static char PK[MAXD][80];      /* kind names of the steps */
static char PL[MAXD][40];      /* goto labels */
static int PI[MAXD];           /* indices */
static int PD;                 /* depth */

static void parse_path(const char *s)
{
    PD = 0;
    if (!strcmp(s, "-")) return;
    char *c = strdup(s);
    for (char *p = strtok(c, "/"); p && PD < MAXD; p = strtok(NULL, "/")) {
        char *col = strrchr(p, ':');
        *col = 0;
        strncpy(PK[PD], p, 79);
        PI[PD] = atoi(col + 1);
        char *dot = strchr(p, '.');
        if (dot && strncmp(p, "\"int", 4)) *dot = 0;
        strncpy(PL[PD], p, 39);
        if (!strcmp(PK[PD], "BCData_t.DirichletData")) PI[PD] = CGNS_ENUMV(Dirichlet);
        if (!strcmp(PK[PD], "BCData_t.NeumannData")) PI[PD] = CGNS_ENUMV(Neumann);
        PD++;
    }
    free(c);
}
static int go_path(void)
{
    char *labs[MAXD]; int nums[MAXD];
    if (PD < 1) return -1;
    for (int i = 1; i < PD; i++) { labs[i - 1] = PL[i]; nums[i - 1] = PI[i]; }
    return cg_golist(fn, PI[0], PD - 1, labs, nums);
}
/* index of the step whose kind is k (or 0) */
static int idx_of(const char *k)
{
    for (int i = 0; i < PD; i++) if (!strcmp(PK[i], k)) return PI[i];
    return 0;
}

/* ------------------------------------------------------------------------------------------------ write calls */
static struct { int on, axis, ncut, nord, nlo, partial; long long cut[64], ord[64], lo[12]; } SL;

static void parse_slab(const char *w)
{
    char *c = strdup(w), *f[5] = {0, 0, 0, 0, 0}; int nf = 0;
    for (char *p = strtok(c, ":"); p && nf < 5; p = strtok(NULL, ":")) f[nf++] = p;
    memset(&SL, 0, sizeof SL);
    if (nf == 5) {
        int n; long long *v;
        SL.on = 1; SL.axis = atoi(f[0]);
        v = csv(f[1], &n); SL.ncut = n < 63 ? n : 63; for (int i = 0; i < SL.ncut; i++) SL.cut[i] = v[i]; free(v);
        v = csv(f[2], &n); SL.nord = n < 64 ? n : 64; for (int i = 0; i < SL.nord; i++) SL.ord[i] = v[i]; free(v);
        v = csv(f[3], &n); SL.nlo = n < 12 ? n : 12; for (int i = 0; i < SL.nlo; i++) SL.lo[i] = v[i]; free(v);
        SL.partial = f[4][0] == 'p';
    }
    free(c);
}
/* the k-th slab (in the requested order) of an array of the given dims: file range, memory range, contiguous offset */
static int slab(int k, int nd, const cgsize_t *dims, cgsize_t *srmin, cgsize_t *srmax, cgsize_t *mrmin, cgsize_t *mrmax, size_t *off_elems)
{
    if (k >= SL.nord) return 0;
    int s = (int)SL.ord[k];
    long long a = s == 0 ? 0 : SL.cut[s - 1], b = s == SL.ncut ? (long long)dims[SL.axis] : SL.cut[s];
    size_t below = 1;
    for (int d = 0; d < nd; d++) {
        long long lo = d < SL.nlo ? SL.lo[d] : 1;
        srmin[d] = (cgsize_t)lo; srmax[d] = (cgsize_t)(lo + dims[d] - 1); mrmin[d] = 1; mrmax[d] = dims[d];
        if (d < SL.axis) below *= (size_t)dims[d];
    }
    srmin[SL.axis] = (cgsize_t)((SL.axis < SL.nlo ? SL.lo[SL.axis] : 1) + a);
    srmax[SL.axis] = (cgsize_t)((SL.axis < SL.nlo ? SL.lo[SL.axis] : 1) + b - 1);
    mrmin[SL.axis] = (cgsize_t)(a + 1); mrmax[SL.axis] = (cgsize_t)b;
    *off_elems = below * (size_t)a;
    return 1;
}

static int do_call(void)
{
    const char *f = W[1];
    parse_path(W[2]);
    char *name = unhexs(W[3]);
    int ni; long long *I = csv(W[4], &ni);
    char *strs[8] = {"", "", "", "", "", "", "", ""}; int ns = 0;
    if (strcmp(W[5], "-")) {
        char *c = strdup(W[5]);
        for (char *p = strtok(c, ";"); p && ns < 8; p = strtok(NULL, ";")) strs[ns++] = unhexs(p);
    }
    struct arr A[4]; int na = 0;
    for (int i = 6; i < NW && na < 4; i++) parse_arr(W[i], &A[na++]);
    int B = idx_of("CGNSBase_t"), Z = idx_of("Zone_t"), S = idx_of("FlowSolution_t"), E = idx_of("Elements_t"),
        BC = idx_of("BC_t"), DS = idx_of("BCDataSet_t"), F = idx_of("Family_t"), G = idx_of("GeometryReference_t"),
        P = idx_of("ParticleZone_t"), PS = idx_of("ParticleSolution_t"), J1 = idx_of("GridConnectivity1to1_t"),
        J = idx_of("GridConnectivity_t");
    static const char *MODELS[10] = {"GasModel_t", "ViscosityModel_t", "ThermalConductivityModel_t", "TurbulenceClosure_t",
        "TurbulenceModel_t", "ThermalRelaxationModel_t", "ChemicalKineticsModel_t", "EMElectricFieldModel_t",
        "EMMagneticFieldModel_t", "EMConductivityModel_t"};
    static const char *PMODELS[5] = {"ParticleCollisionModel_t", "ParticleBreakupModel_t", "ParticleForceModel_t",
        "ParticleWallInteractionModel_t", "ParticlePhaseChangeModel_t"};
    int out = 0, rc = -7, has_index = 1;
    cgsize_t *cs = (cgsize_t *)calloc(ni + 8, sizeof(cgsize_t));
    int *is = (int *)calloc(ni + 8, sizeof(int));
    for (int i = 0; i < ni; i++) { cs[i] = (cgsize_t)I[i]; is[i] = (int)I[i]; }

    if (!strcmp(f, "base")) rc = cg_base_write(fn, name, is[0], is[1], &out);
    else if (!strcmp(f, "zone")) rc = cg_zone_write(fn, B, name, cs + 1, (CGNS_ENUMT(ZoneType_t))is[0], &out);
    else if (!strcmp(f, "grid")) rc = cg_grid_write(fn, B, Z, name, &out);
    else if (!strcmp(f, "coord") && SL.on) {
        cgsize_t a1[12], a2[12], m1[12], m2[12]; size_t off;
        rc = 0;
        for (int k = 0; !rc && slab(k, A[0].nd, A[0].dims, a1, a2, m1, m2, &off); k++) {
            int o = -99, *po = opt_slab_index ? &o : &out;      /* every slab call gets its own output variable */
            rc = SL.partial ? cg_coord_partial_write(fn, B, Z, dtype_of(A[0].dt), name, a1, a2, A[0].data + off * dt_bytes(dtype_of(A[0].dt)), po)
                            : cg_coord_general_write(fn, B, Z, name, dtype_of(A[0].dt), a1, a2, dtype_of(A[0].dt), A[0].nd, A[0].dims, m1, m2, A[0].data, po);
            if (opt_slab_index && !rc) slab_index(k, o, &out);
        }
    }
    else if (!strcmp(f, "coord")) rc = cg_coord_write(fn, B, Z, dtype_of(A[0].dt), name, A[0].data, &out);
    else if (!strcmp(f, "section") && SL.on) {
        int npe = 0; cgsize_t one = cs[2] - cs[1] + 1, a1[2], a2[2], m1[2], m2[2]; size_t off;
        cg_npe((CGNS_ENUMT(ElementType_t))is[0], &npe);
        rc = cg_section_partial_write(fn, B, Z, name, (CGNS_ENUMT(ElementType_t))is[0], cs[1], cs[2], is[3], &out);
        for (int k = 0; !rc && slab(k, 1, &one, a1, a2, m1, m2, &off); k++)
            rc = cg_elements_partial_write(fn, B, Z, out, cs[1] + m1[0] - 1, cs[1] + m2[0] - 1, (cgsize_t *)A[0].data + (size_t)(m1[0] - 1) * npe);
    }
    else if (!strcmp(f, "section"))
        rc = cg_section_write(fn, B, Z, name, (CGNS_ENUMT(ElementType_t))is[0], cs[1], cs[2], is[3], (cgsize_t *)A[0].data, &out);
    else if (!strcmp(f, "poly_section"))
        rc = cg_poly_section_write(fn, B, Z, name, (CGNS_ENUMT(ElementType_t))is[0], cs[1], cs[2], is[3],
                                   (cgsize_t *)A[0].data, (cgsize_t *)A[1].data, &out);
    else if (!strcmp(f, "parent_data")) {
        unsigned char *pd = (unsigned char *)calloc(A[0].nbytes + A[1].nbytes + 8, 1);
        memcpy(pd, A[0].data, A[0].nbytes); memcpy(pd + A[0].nbytes, A[1].data, A[1].nbytes);
        rc = cg_parent_data_write(fn, B, Z, E, (cgsize_t *)pd); has_index = 0; free(pd);
    }
    else if (!strcmp(f, "sol")) rc = cg_sol_write(fn, B, Z, name, (CGNS_ENUMT(GridLocation_t))is[0], &out);
    else if (!strcmp(f, "field") && SL.on) {
        cgsize_t a1[12], a2[12], m1[12], m2[12]; size_t off;
        rc = 0;
        for (int k = 0; !rc && slab(k, A[0].nd, A[0].dims, a1, a2, m1, m2, &off); k++) {
            int o = -99, *po = opt_slab_index ? &o : &out;      /* every slab call gets its own output variable */
            rc = SL.partial ? cg_field_partial_write(fn, B, Z, S, dtype_of(A[0].dt), name, a1, a2, A[0].data + off * dt_bytes(dtype_of(A[0].dt)), po)
                            : cg_field_general_write(fn, B, Z, S, name, dtype_of(A[0].dt), a1, a2, dtype_of(A[0].dt), A[0].nd, A[0].dims, m1, m2, A[0].data, po);
            if (opt_slab_index && !rc) slab_index(k, o, &out);
        }
    }
    else if (!strcmp(f, "field")) rc = cg_field_write(fn, B, Z, S, dtype_of(A[0].dt), name, A[0].data, &out);
    else if (!strcmp(f, "boco"))
        rc = cg_boco_write(fn, B, Z, name, (CGNS_ENUMT(BCType_t))is[0], (CGNS_ENUMT(PointSetType_t))is[1], cs[2], cs + 3, &out);
    else if (!strcmp(f, "boco_gridlocation")) { rc = cg_boco_gridlocation_write(fn, B, Z, BC, (CGNS_ENUMT(GridLocation_t))is[0]); has_index = 0; }
    else if (!strcmp(f, "boco_normal")) {
        rc = cg_boco_normal_write(fn, B, Z, BC, ni > 1 ? is + 1 : NULL, is[0], na ? dtype_of(A[0].dt) : CGNS_ENUMV(RealDouble),
                                  na ? A[0].data : NULL);
        has_index = 0;
    }
    else if (!strcmp(f, "dataset")) rc = cg_dataset_write(fn, B, Z, BC, name, (CGNS_ENUMT(BCType_t))is[0], &out);
    else if (!strcmp(f, "bcdata")) { rc = cg_bcdata_write(fn, B, Z, BC, DS, (CGNS_ENUMT(BCDataType_t))is[0]); has_index = 0; }
    else if (!strcmp(f, "1to1")) {
        int idim = 0; cg_index_dim(fn, B, Z, &idim);
        rc = cg_1to1_write(fn, B, Z, name, strs[0], cs, cs + 2 * idim, is + 4 * idim, &out);
    }
    else if (!strcmp(f, "conn")) {
        int idim = 0; cg_index_dim(fn, B, Z, &idim);
        cgsize_t npnts = cs[3], nd = cs[6];
        rc = cg_conn_write(fn, B, Z, name, (CGNS_ENUMT(GridLocation_t))is[0], (CGNS_ENUMT(GridConnectivityType_t))is[1],
                           (CGNS_ENUMT(PointSetType_t))is[2], npnts, cs + 7, strs[0], (CGNS_ENUMT(ZoneType_t))is[5],
                           (CGNS_ENUMT(PointSetType_t))is[4], CGNS_ENUMV(LongInteger), nd, nd ? cs + 7 + idim * npnts : NULL, &out);
    }
    else if (!strcmp(f, "hole"))
        rc = cg_hole_write(fn, B, Z, name, (CGNS_ENUMT(GridLocation_t))is[0], (CGNS_ENUMT(PointSetType_t))is[1], is[2], cs[3], cs + 4, &out);
    else if (!strcmp(f, "family")) rc = cg_family_write(fn, B, name, &out);
    else if (!strcmp(f, "fambc")) rc = cg_fambc_write(fn, B, F, name, (CGNS_ENUMT(BCType_t))is[0], &out);
    else if (!strcmp(f, "geo")) rc = cg_geo_write(fn, B, F, name, strs[0], strs[1], &out);
    else if (!strcmp(f, "part")) rc = cg_part_write(fn, B, F, G, name, &out);
    else if (!strcmp(f, "family_name")) { rc = cg_family_name_write(fn, B, F, name, strs[0]); has_index = 0; }
    else if (!strcmp(f, "particle")) rc = cg_particle_write(fn, B, name, cs[0], &out);
    else if (!strcmp(f, "particle_coord_node")) rc = cg_particle_coord_node_write(fn, B, P, name, &out);
    else if (!strcmp(f, "particle_coord") && SL.on) {
        cgsize_t a1[12], a2[12], m1[12], m2[12]; size_t off;
        rc = 0;
        for (int k = 0; !rc && slab(k, A[0].nd, A[0].dims, a1, a2, m1, m2, &off); k++) {
            int o = -99, *po = opt_slab_index ? &o : &out;      /* every slab call gets its own output variable */
            rc = SL.partial ? cg_particle_coord_partial_write(fn, B, P, dtype_of(A[0].dt), name, a1, a2, A[0].data + off * dt_bytes(dtype_of(A[0].dt)), po)
                            : cg_particle_coord_general_write(fn, B, P, name, dtype_of(A[0].dt), a1, a2, dtype_of(A[0].dt), A[0].dims, m1, m2, A[0].data, po);
            if (opt_slab_index && !rc) slab_index(k, o, &out);
        }
    }
    else if (!strcmp(f, "particle_coord")) rc = cg_particle_coord_write(fn, B, P, dtype_of(A[0].dt), name, A[0].data, &out);
    else if (!strcmp(f, "particle_sol")) rc = cg_particle_sol_write(fn, B, P, name, &out);
    else if (!strcmp(f, "particle_sol_ptset"))
        rc = cg_particle_sol_ptset_write(fn, B, P, name, (CGNS_ENUMT(PointSetType_t))is[0], cs[1], cs + 2, &out);
    else if (!strcmp(f, "particle_field") && SL.on) {
        cgsize_t a1[12], a2[12], m1[12], m2[12]; size_t off;
        rc = 0;
        for (int k = 0; !rc && slab(k, A[0].nd, A[0].dims, a1, a2, m1, m2, &off); k++) {
            int o = -99, *po = opt_slab_index ? &o : &out;      /* every slab call gets its own output variable */
            rc = SL.partial ? cg_particle_field_partial_write(fn, B, P, PS, dtype_of(A[0].dt), name, a1, a2, A[0].data + off * dt_bytes(dtype_of(A[0].dt)), po)
                            : cg_particle_field_general_write(fn, B, P, PS, name, dtype_of(A[0].dt), a1, a2, dtype_of(A[0].dt), A[0].dims, m1, m2, A[0].data, po);
            if (opt_slab_index && !rc) slab_index(k, o, &out);
        }
    }
    else if (!strcmp(f, "particle_field")) rc = cg_particle_field_write(fn, B, P, PS, dtype_of(A[0].dt), name, A[0].data, &out);
    else if (!strcmp(f, "piter")) { rc = cg_piter_write(fn, B, P, name); has_index = 0; }
    else if (!strcmp(f, "subreg_ptset"))
        rc = cg_subreg_ptset_write(fn, B, Z, name, is[0], (CGNS_ENUMT(GridLocation_t))is[1], (CGNS_ENUMT(PointSetType_t))is[2], cs[3], cs + 4, &out);
    else if (!strcmp(f, "subreg_bcname")) rc = cg_subreg_bcname_write(fn, B, Z, name, is[0], strs[0], &out);
    else if (!strcmp(f, "subreg_gcname")) rc = cg_subreg_gcname_write(fn, B, Z, name, is[0], strs[0], &out);
    else if (!strcmp(f, "bc_wallfunction")) { rc = cg_bc_wallfunction_write(fn, B, Z, BC, (CGNS_ENUMT(WallFunctionType_t))is[0]); has_index = 0; }
    else if (!strcmp(f, "bc_area")) {
        float sa; memcpy(&sa, A[0].data, 4);
        rc = cg_bc_area_write(fn, B, Z, BC, (CGNS_ENUMT(AreaType_t))is[0], sa, strs[0]); has_index = 0;
    }
    else if (!strcmp(f, "periodic")) {
        rc = J1 ? cg_1to1_periodic_write(fn, B, Z, J1, (float *)A[0].data, (float *)A[1].data, (float *)A[2].data)
                : cg_conn_periodic_write(fn, B, Z, J, (float *)A[0].data, (float *)A[1].data, (float *)A[2].data);
        has_index = 0;
    }
    else if (!strcmp(f, "average")) {
        rc = J1 ? cg_1to1_average_write(fn, B, Z, J1, (CGNS_ENUMT(AverageInterfaceType_t))is[0])
                : cg_conn_average_write(fn, B, Z, J, (CGNS_ENUMT(AverageInterfaceType_t))is[0]);
        has_index = 0;
    }
    else if (!strcmp(f, "sol_ptset"))
        rc = cg_sol_ptset_write(fn, B, Z, name, (CGNS_ENUMT(GridLocation_t))is[0], (CGNS_ENUMT(PointSetType_t))is[1], cs[2], cs + 3, &out);
    else if (!strcmp(f, "discrete_ptset"))
        rc = cg_discrete_ptset_write(fn, B, Z, name, (CGNS_ENUMT(GridLocation_t))is[0], (CGNS_ENUMT(PointSetType_t))is[1], cs[2], cs + 3, &out);
    else if (!strcmp(f, "discrete")) rc = cg_discrete_write(fn, B, Z, name, &out);
    else if (!strcmp(f, "rigid_motion")) rc = cg_rigid_motion_write(fn, B, Z, name, (CGNS_ENUMT(RigidGridMotionType_t))is[0], &out);
    else if (!strcmp(f, "arbitrary_motion"))
        rc = cg_arbitrary_motion_write(fn, B, Z, name, (CGNS_ENUMT(ArbitraryGridMotionType_t))is[0], &out);
    else if (!strcmp(f, "biter")) { rc = cg_biter_write(fn, B, name, is[0]); has_index = 0; }
    else if (!strcmp(f, "ziter")) { rc = cg_ziter_write(fn, B, Z, name); has_index = 0; }
    else if (!strcmp(f, "simulation_type")) { rc = cg_simulation_type_write(fn, B, (CGNS_ENUMT(SimulationType_t))is[0]); has_index = 0; }
    else if (!strcmp(f, "gravity")) { rc = cg_gravity_write(fn, B, (float *)A[0].data); has_index = 0; }
    else if (!strcmp(f, "axisym")) { rc = cg_axisym_write(fn, B, (float *)A[0].data, (float *)A[1].data); has_index = 0; }
    else {
        /* node-context functions: position first */
        has_index = 0;
        rc = go_path();
        if (rc) { ERR(rc, "goto"); }
        else if (!strcmp(f, "famname")) rc = cg_famname_write(strs[0]);
        else if (!strcmp(f, "descriptor")) rc = cg_descriptor_write(name, strs[0]);
        else if (!strcmp(f, "dataclass")) rc = cg_dataclass_write((CGNS_ENUMT(DataClass_t))is[0]);
        else if (!strcmp(f, "units"))
            rc = cg_units_write((CGNS_ENUMT(MassUnits_t))is[0], (CGNS_ENUMT(LengthUnits_t))is[1], (CGNS_ENUMT(TimeUnits_t))is[2],
                                (CGNS_ENUMT(TemperatureUnits_t))is[3], (CGNS_ENUMT(AngleUnits_t))is[4]);
        else if (!strcmp(f, "unitsfull"))
            rc = cg_unitsfull_write((CGNS_ENUMT(MassUnits_t))is[0], (CGNS_ENUMT(LengthUnits_t))is[1], (CGNS_ENUMT(TimeUnits_t))is[2],
                                    (CGNS_ENUMT(TemperatureUnits_t))is[3], (CGNS_ENUMT(AngleUnits_t))is[4],
                                    (CGNS_ENUMT(ElectricCurrentUnits_t))is[5], (CGNS_ENUMT(SubstanceAmountUnits_t))is[6],
                                    (CGNS_ENUMT(LuminousIntensityUnits_t))is[7]);
        else if (!strcmp(f, "exponents")) rc = cg_exponents_write(dtype_of(A[0].dt), A[0].data);
        else if (!strcmp(f, "expfull")) {
            unsigned char *e8 = (unsigned char *)calloc(A[0].nbytes + A[1].nbytes + 8, 1);
            memcpy(e8, A[0].data, A[0].nbytes); memcpy(e8 + A[0].nbytes, A[1].data, A[1].nbytes);
            rc = cg_expfull_write(dtype_of(A[0].dt), e8); free(e8);
        }
        else if (!strcmp(f, "conversion")) rc = cg_conversion_write(dtype_of(A[0].dt), A[0].data);
        else if (!strcmp(f, "ordinal")) rc = cg_ordinal_write(is[0]);
        else if (!strcmp(f, "user_data")) rc = cg_user_data_write(name);
        else if (!strcmp(f, "array") && SL.on) {
            cgsize_t a1[12], a2[12], m1[12], m2[12]; size_t off;
            for (int k = 0; !rc && slab(k, A[0].nd, A[0].dims, a1, a2, m1, m2, &off); k++) {
                if (k && (rc = go_path())) break;
                rc = cg_array_general_write(name, dtype_of(A[0].dt), A[0].nd, A[0].dims, a1, a2, dtype_of(A[0].dt), A[0].nd, A[0].dims, m1, m2, A[0].data);
            }
        }
        else if (!strcmp(f, "array")) rc = cg_array_write(name, dtype_of(A[0].dt), A[0].nd, A[0].dims, A[0].data);
        else if (!strcmp(f, "rind")) rc = cg_rind_write(is);
        else if (!strcmp(f, "gridlocation")) rc = cg_gridlocation_write((CGNS_ENUMT(GridLocation_t))is[0]);
        else if (!strcmp(f, "ptset")) rc = cg_ptset_write((CGNS_ENUMT(PointSetType_t))is[0], cs[2], cs + 3);
        else if (!strcmp(f, "multifam")) rc = cg_multifam_write(name, strs[0]);
        else if (!strcmp(f, "integral")) rc = cg_integral_write(name);
        else if (!strcmp(f, "state")) rc = cg_state_write(ns ? strs[0] : NULL);
        else if (!strcmp(f, "convergence")) rc = cg_convergence_write(is[0], ns ? strs[0] : NULL);
        else if (!strcmp(f, "rotating")) rc = cg_rotating_write((float *)A[1].data, (float *)A[0].data);
        else if (!strcmp(f, "equationset")) rc = cg_equationset_write(is[0]);
        else if (!strcmp(f, "governing")) rc = cg_governing_write((CGNS_ENUMT(GoverningEquationsType_t))is[0]);
        else if (!strcmp(f, "model")) rc = (is[0] >= 0 && is[0] < 10) ? cg_model_write(MODELS[is[0]], (CGNS_ENUMT(ModelType_t))is[1]) : -8;
        else if (!strcmp(f, "diffusion")) rc = cg_diffusion_write(is);
        else if (!strcmp(f, "particle_equationset")) rc = cg_particle_equationset_write(is[0]);
        else if (!strcmp(f, "particle_governing")) rc = cg_particle_governing_write((CGNS_ENUMT(ParticleGoverningEquationsType_t))is[0]);
        else if (!strcmp(f, "particle_model"))
            rc = (is[0] >= 0 && is[0] < 5) ? cg_particle_model_write(PMODELS[is[0]], (CGNS_ENUMT(ParticleModelType_t))is[1]) : -8;
        else if (!strcmp(f, "bcdataset")) rc = cg_bcdataset_write(name, (CGNS_ENUMT(BCType_t))is[0], (CGNS_ENUMT(BCDataType_t))is[1]);
        else if (!strcmp(f, "node_family")) { rc = cg_node_family_write(name, &out); has_index = 1; }
        else rc = -8;
    }
    ERR(rc, f);
    if (rc) printf("i fail %d\n", rc);
    else if (has_index) printf("i %d\n", out);
    else printf("i -\n");
    free(cs); free(is); free(I);
    return rc;
}

/* ------------------------------------------------------------------------------------------------ low-level dump */
static int dump_node(int cg, double id, const char *path, int depth)
{
    int n = 0, ier;
    if (depth > 40) return -1;
    if ((ier = cgio_number_children(cg, id, &n))) return ier;
    for (int i = 1; i <= n; i++) {
        char name[CGIO_MAX_NAME_LENGTH + 1], label[CGIO_MAX_LABEL_LENGTH + 1], dt[CGIO_MAX_DATATYPE_LENGTH + 1];
        double cid; int cnt = 0, nd = 0; cgsize_t dims[CGIO_MAX_DIMENSIONS];
        if ((ier = cgio_children_ids(cg, id, i, 1, &cnt, &cid)) || cnt != 1) return ier ? ier : -2;
        if ((ier = cgio_get_name(cg, cid, name))) return ier;
        if ((ier = cgio_get_label(cg, cid, label))) return ier;
        if ((ier = cgio_get_data_type(cg, cid, dt))) return ier;
        char *sub = (char *)malloc(strlen(path) + 2 * strlen(name) + 4);
        strcpy(sub, path); strcat(sub, "/");
        { char *q = sub + strlen(sub); if (!*name) { *q++ = '-'; } for (const char *c = name; *c; c++) q += sprintf(q, "%02x", (unsigned char)*c); *q = 0; }
        printf("N %s ", sub); hexs(label); printf(" %s ", dt);
        if (strcmp(dt, "MT") && strcmp(dt, "LK")) {
            cglong_t nb = 0;
            if ((ier = cgio_get_dimensions(cg, cid, &nd, dims))) { printf("?\n"); return ier; }
            if (!nd) printf("-");
            for (int k = 0; k < nd; k++) printf("%s%lld", k ? "," : "", (long long)dims[k]);
            if ((ier = cgio_get_data_size(cg, cid, &nb)) || nb < 0 || nb > ((cglong_t)1 << 28)) { printf(" ?\n"); return ier ? ier : -3; }
            unsigned char *buf = (unsigned char *)calloc((size_t)nb + 16, 1);
            if (nb > 0 && (ier = cgio_read_all_data_type(cg, cid, dt, buf))) { printf(" ?\n"); free(buf); return ier; }
            printf(" "); hex(buf, (size_t)nb); printf("\n");
            free(buf);
        } else printf("- -\n");
        ier = dump_node(cg, cid, sub, depth + 1);
        free(sub);
        if (ier) return ier;
    }
    return 0;
}
static void do_dump(const char *file)
{
    int cg = 0, ier; double root;
    ier = cgio_open_file(file, CGIO_MODE_READ, CGIO_FILE_NONE, &cg);
    if (ier) { printf("E dump open:%d\n", ier); return; }
    ier = cgio_get_root_id(cg, &root);
    if (!ier) ier = dump_node(cg, root, "", 0);
    { int c = cgio_close_file(cg); if (!ier && c) ier = c; }
    printf("E dump %s%d\n", ier ? "err:" : "ok:", ier);
}

/* ------------------------------------------------------------------------------------------------ reading back */
static char RP[2048];            /* current R path */
static char *GL[MAXD]; static int GI[MAXD]; static int GD; static int GB;      /* goto stack below the base */
static char GLbuf[MAXD][40];
static size_t RPlen[MAXD + 2]; static int RD;
static int cur_idim, cur_phys, cur_cell;
static int nerr;

static void push(const char *kind, int idx, const char *label, int gidx)
{
    RPlen[RD++] = strlen(RP);
    sprintf(RP + strlen(RP), "/%s:%d", kind, idx);
    if (label) { strncpy(GLbuf[GD], label, 39); GL[GD] = GLbuf[GD]; GI[GD] = gidx; GD++; }
}
static void pop(int had_label) { RP[RPlen[--RD]] = 0; if (had_label) GD--; }
static int go(void) { int rc = cg_golist(fn, GB, GD, GL, GI); if (rc) { nerr++; ERR(rc, RP); printf("X %s cg_golist %d\n", RP, rc); } return rc; }
#define CHK(call) do { int rc_ = (call); if (rc_) { nerr++; ERR(rc_, #call); printf("X %s %s %d\n", RP, #call, rc_); } } while (0)

static void R_begin(const char *sub, const char *name)
{ printf("R %s%s ", RP, sub ? sub : ""); hexs(name); printf(" "); }
static void r_none(const char *sub, const char *name) { R_begin(sub, name); printf("none\n"); }
static void r_str(const char *sub, const char *name, const char *s) { R_begin(sub, name); printf("str:"); hexs(s); printf("\n"); }
static void r_enum(const char *sub, const char *name, int v) { R_begin(sub, name); printf("enum:%d\n", v); }
static void r_ints(const char *sub, const char *name, int nd, const long long *dims, const long long *vals)
{
    long long n = 1;
    R_begin(sub, name); printf("ints:");
    for (int i = 0; i < nd; i++) { printf("%s%lld", i ? "," : "", dims[i]); n *= dims[i]; }
    printf(":");
    if (n <= 0) printf("-");
    for (long long i = 0; i < n; i++) printf("%s%lld", i ? "," : "", vals[i]);
    printf("\n");
}
static void r_ints1(const char *sub, const char *name, long long n, const long long *vals) { r_ints(sub, name, 1, &n, vals); }
static void r_arr(const char *sub, const char *name, const char *dt, int nd, const cgsize_t *dims, const void *data, size_t nbytes)
{
    R_begin(sub, name); printf("arr:%s:", dt);
    for (int i = 0; i < nd; i++) printf("%s%lld", i ? "," : "", (long long)dims[i]);
    printf(":"); hex(data, nbytes); printf("\n");
}

#define F_DESCR 1
#define F_DCLASS 2
#define F_UNITS 4
#define F_UDATA 8
#define F_ARRAYS 16
#define F_LOC 32
#define F_RIND 64
#define F_ORD 128
#define F_FAMNAME 256
#define F_PTSET 512
#define F_CONV 1024
#define F_EXP 2048
#define F_MULTIFAM 4096
#define F_DDD (F_DESCR | F_DCLASS | F_UNITS)
#define F_DDDU (F_DDD | F_UDATA)

static void ctx_read(int flags);

static void read_arrays_here(void)
{
    int n = 0;
    if (go()) return;
    CHK(cg_narrays(&n));
    for (int i = 1; i <= n; i++) {
        char name[64]; CGNS_ENUMT(DataType_t) dt; int nd = 0; cgsize_t dims[12]; size_t cnt = 1;
        if (go()) return;
        if (cg_array_info(i, name, &dt, &nd, dims)) { nerr++; printf("X %s cg_array_info %d\n", RP, i); continue; }
        for (int k = 0; k < nd; k++) cnt *= (size_t)dims[k];
        void *buf = calloc(cnt + 2, dt_bytes(dt));
        CHK(cg_array_read(i, buf));
        push("DataArray_t", i, "DataArray_t", i);
        r_arr(NULL, name, dt_name(dt), nd, dims, buf, cnt * dt_bytes(dt));
        free(buf);
        ctx_read(F_DDD | F_CONV | F_EXP);
        pop(1);
    }
}

static void ctx_read(int flags)
{
    int n, rc;
    if (flags & F_DESCR) {
        n = 0;
        if (!go()) {
            CHK(cg_ndescriptors(&n));
            for (int i = 1; i <= n; i++) {
                char name[64], sub[64]; char *text = NULL;
                if (cg_descriptor_read(i, name, &text)) { nerr++; continue; }
                sprintf(sub, "/Descriptor_t:%d", i);
                r_str(sub, name, text ? text : "");
                if (text) cg_free(text);
            }
        }
    }
    if ((flags & F_DCLASS) && !go()) {
        CGNS_ENUMT(DataClass_t) dc = CGNS_ENUMV(DataClassNull);
        rc = cg_dataclass_read(&dc);
        if (rc && rc != CG_NODE_NOT_FOUND) { nerr++; printf("X %s cg_dataclass_read %d\n", RP, rc); }
        r_enum("/DataClass_t.DataClass:1", "DataClass", rc ? 0 : (int)dc);
    }
    if ((flags & F_UNITS) && !go()) {
        int nu = 0;
        rc = cg_nunits(&nu);
        if (rc == CG_OK && nu > 0) {
            CGNS_ENUMT(MassUnits_t) m; CGNS_ENUMT(LengthUnits_t) l; CGNS_ENUMT(TimeUnits_t) t; CGNS_ENUMT(TemperatureUnits_t) te;
            CGNS_ENUMT(AngleUnits_t) a; CGNS_ENUMT(ElectricCurrentUnits_t) cu; CGNS_ENUMT(SubstanceAmountUnits_t) am;
            CGNS_ENUMT(LuminousIntensityUnits_t) li;
            CHK(cg_unitsfull_read(&m, &l, &t, &te, &a, &cu, &am, &li));
            R_begin("/DimensionalUnits_t.DimensionalUnits:1", "DimensionalUnits");
            printf("enums:%d,%d,%d,%d,%d\n", (int)m, (int)l, (int)t, (int)te, (int)a);
            if (nu == 8) {
                R_begin("/DimensionalUnits_t.DimensionalUnits:1/AdditionalUnits_t.AdditionalUnits:1", "AdditionalUnits");
                printf("enums:%d,%d,%d\n", (int)cu, (int)am, (int)li);
            }
        } else if (rc != CG_OK && rc != CG_NODE_NOT_FOUND) { nerr++; printf("X %s cg_nunits %d\n", RP, rc); }
    }
    if ((flags & F_ORD) && !go()) {
        int o = 0; long long v;
        rc = cg_ordinal_read(&o);
        if (rc && rc != CG_NODE_NOT_FOUND) { nerr++; printf("X %s cg_ordinal_read %d\n", RP, rc); }
        v = rc ? 0 : o;
        r_ints1("/Ordinal_t.Ordinal:1", "Ordinal", 1, &v);
    }
    if ((flags & F_LOC) && !go()) {
        CGNS_ENUMT(GridLocation_t) loc = CGNS_ENUMV(Vertex);
        CHK(cg_gridlocation_read(&loc));
        r_enum("/GridLocation_t.GridLocation:1", "GridLocation", (int)loc);
    }
    if ((flags & F_RIND) && !go()) {
        int rind[12] = {0}; long long v[12];
        CHK(cg_rind_read(rind));
        for (int i = 0; i < 2 * cur_idim; i++) v[i] = rind[i];
        r_ints1("/Rind_t.Rind:1", "Rind", 2 * cur_idim, v);
    }
    if ((flags & F_FAMNAME) && !go()) {
        char fam[1024];
        rc = cg_famname_read(fam);
        if (rc == CG_OK) r_str("/FamilyName_t.FamilyName:1", "FamilyName", fam);
        else if (rc != CG_NODE_NOT_FOUND) { nerr++; printf("X %s cg_famname_read %d\n", RP, rc); }
    }
    if ((flags & F_PTSET) && !go()) {
        CGNS_ENUMT(PointSetType_t) pt; cgsize_t np = 0;
        rc = cg_ptset_info(&pt, &np);
        if (rc == CG_OK && np > 0) {
            cgsize_t *p = (cgsize_t *)calloc((size_t)(np * cur_idim) + 2, sizeof(cgsize_t));
            long long *v = (long long *)calloc((size_t)(np * cur_idim) + 2, sizeof(long long)), d[2];
            CHK(cg_ptset_read(p));
            for (long long i = 0; i < np * cur_idim; i++) v[i] = p[i];
            d[0] = cur_idim; d[1] = np;
            if (pt == CGNS_ENUMV(PointRange)) r_ints("/IndexRange_t.PointRange:1", "PointRange", 2, d, v);
            else r_ints("/IndexArray_t.PointList:1", PointSetTypeName[pt], 2, d, v);
            free(p); free(v);
        } else if (rc != CG_OK && rc != CG_NODE_NOT_FOUND) { nerr++; printf("X %s cg_ptset_info %d\n", RP, rc); }
    }
    if ((flags & F_CONV) && !go()) {
        CGNS_ENUMT(DataType_t) dt;
        rc = cg_conversion_info(&dt);
        if (rc == CG_OK) {
            unsigned char buf[64] = {0}; cgsize_t d = 2;
            CHK(cg_conversion_read(buf));
            r_arr("/DataConversion_t.DataConversion:1", "DataConversion", dt_name(dt), 1, &d, buf, 2 * dt_bytes(dt));
        } else if (rc != CG_NODE_NOT_FOUND) { nerr++; printf("X %s cg_conversion_info %d\n", RP, rc); }
    }
    if ((flags & F_EXP) && !go()) {
        CGNS_ENUMT(DataType_t) dt;
        rc = cg_exponents_info(&dt);
        if (rc == CG_OK) {
            unsigned char buf[128] = {0}; cgsize_t d = 5; int ne = 0;
            CHK(cg_nexponents(&ne));
            if (ne == 8) CHK(cg_expfull_read(buf)); else CHK(cg_exponents_read(buf));
            r_arr("/DimensionalExponents_t.DimensionalExponents:1", "DimensionalExponents", dt_name(dt), 1, &d, buf, 5 * dt_bytes(dt));
            if (ne == 8) {
                d = 3;
                r_arr("/DimensionalExponents_t.DimensionalExponents:1/AdditionalExponents_t.AdditionalExponents:1",
                      "AdditionalExponents", dt_name(dt), 1, &d, buf + 5 * dt_bytes(dt), 3 * dt_bytes(dt));
            }
        } else if (rc != CG_NODE_NOT_FOUND) { nerr++; printf("X %s cg_exponents_info %d\n", RP, rc); }
    }
    if (flags & F_ARRAYS) read_arrays_here();
    if ((flags & F_MULTIFAM) && !go()) {
        int nm = 0;
        rc = cg_nmultifam(&nm);
        if (rc) { nerr++; printf("X %s cg_nmultifam %d\n", RP, rc); nm = 0; }
        for (int i = 1; i <= nm; i++) {
            char nam[64], fam[1024], sub[64];
            if (go()) break;
            if (cg_multifam_read(i, nam, fam)) { nerr++; continue; }
            sprintf(sub, "/AdditionalFamilyName_t:%d", i);
            r_str(sub, nam, fam);
        }
    }
    if ((flags & F_UDATA) && !go()) {
        n = 0;
        CHK(cg_nuser_data(&n));
        for (int i = 1; i <= n; i++) {
            char name[64];
            if (go()) break;
            if (cg_user_data_read(i, name)) { nerr++; continue; }
            push("UserDefinedData_t", i, "UserDefinedData_t", i);
            r_none(NULL, name);
            if (GD < 18) ctx_read(F_DDD | F_ARRAYS | F_LOC | F_FAMNAME | F_ORD | F_PTSET | F_UDATA | F_MULTIFAM);
            pop(1);
        }
    }
}

/* ---- tranche 2: node-context containers read at the current stack position */
static void read_described(const char *kind, const char *label, const char *name, const char *payload_kind, long long ival,
                           const char *first_descr_name, char *first_descr, int flags)
{
    /* the node itself, then its children; a description the API returns separately (ReferenceStateDescription,
       NormDefinitions) is the FIRST Descriptor_t child the writer created */
    push(kind, 1, label, 1);
    if (!strcmp(payload_kind, "none")) r_none(NULL, name);
    else if (!strcmp(payload_kind, "enum")) r_enum(NULL, name, (int)ival);
    else r_ints1(NULL, name, 1, &ival);
    int shift = 0;
    if (first_descr) { r_str("/Descriptor_t:1", first_descr_name, first_descr); shift = 1; }
    if (flags & F_DESCR) {
        int n = 0;
        if (!go()) {
            CHK(cg_ndescriptors(&n));
            for (int i = 1; i <= n; i++) {
                char nm[64], sub[64]; char *text = NULL;
                if (cg_descriptor_read(i, nm, &text)) { nerr++; continue; }
                sprintf(sub, "/Descriptor_t:%d", i + shift);
                r_str(sub, nm, text ? text : "");
                if (text) cg_free(text);
            }
        }
    }
    ctx_read(flags & ~F_DESCR);
    pop(1);
}

#define T2_STATE 1
#define T2_CONV 2
#define T2_INT 4
#define T2_EQ 8
#define T2_ROT 16
#define T2_PEQ 32

static int diffusion_count(void) { int d = cur_idim ? cur_idim : cur_cell; return d == 1 ? 1 : d == 2 ? 3 : 6; }

static void read_diffusion(void)
{
    int dm[8] = {0}, rc;
    if (go()) return;
    rc = cg_diffusion_read(dm);
    if (rc == CG_OK) { long long v[8]; int n = diffusion_count(); for (int i = 0; i < n; i++) v[i] = dm[i];
                       r_ints1("/\"int[1+...+IndexDimension]\".DiffusionModel:1", "DiffusionModel", n, v); }
    else if (rc != CG_NODE_NOT_FOUND) { nerr++; printf("X %s cg_diffusion_read %d\n", RP, rc); }
}

static void read_common_t2(int is_base, int mask)
{
    /* children that bases, zones and particle zones share: ReferenceState_t, ConvergenceHistory_t, IntegralData_t,
       FlowEquationSet_t (+ governing equations, the ten model nodes, diffusion models), RotatingCoordinates_t,
       ParticleEquationSet_t */
    int n, rc;
    if ((mask & T2_STATE) && !go()) {
        char *d = NULL;
        rc = cg_state_read(&d);
        if (rc == CG_OK) { read_described("ReferenceState_t.ReferenceState", "ReferenceState_t", "ReferenceState", "none", 0,
                                          "ReferenceStateDescription", (d && *d) ? d : NULL, F_DDDU | F_ARRAYS); if (d) cg_free(d); }
        else if (rc != CG_NODE_NOT_FOUND) { nerr++; printf("X %s cg_state_read %d\n", RP, rc); }
    }
    if ((mask & T2_CONV) && !go()) {
        char *d = NULL; int it = 0;
        rc = cg_convergence_read(&it, &d);
        if (rc == CG_OK) { read_described("ConvergenceHistory_t", "ConvergenceHistory_t", is_base ? "GlobalConvergenceHistory" : "ZoneConvergenceHistory",
                                          "ints", it, "NormDefinitions", (d && *d) ? d : NULL, F_DDDU | F_ARRAYS); if (d) cg_free(d); }
        else if (rc != CG_NODE_NOT_FOUND) { nerr++; printf("X %s cg_convergence_read %d\n", RP, rc); }
    }
    if ((mask & T2_INT) && !go()) {
        n = 0; CHK(cg_nintegrals(&n));
        for (int i = 1; i <= n; i++) {
            char nm[64];
            if (go()) break;
            if (cg_integral_read(i, nm)) { nerr++; continue; }
            push("IntegralData_t", i, "IntegralData_t", i);
            r_none(NULL, nm);
            ctx_read(F_DDDU | F_ARRAYS);
            pop(1);
        }
    }
    if ((mask & T2_EQ) && !go()) {
        int ed = 0, gf = 0, mf[10] = {0};
        rc = cg_equationset_read(&ed, &gf, &mf[0], &mf[1], &mf[2], &mf[3], &mf[4]);
        if (rc == CG_OK) {
            static const char *ML[10] = {"GasModel_t", "ViscosityModel_t", "ThermalConductivityModel_t", "TurbulenceClosure_t",
                "TurbulenceModel_t", "ThermalRelaxationModel_t", "ChemicalKineticsModel_t", "EMElectricFieldModel_t",
                "EMMagneticFieldModel_t", "EMConductivityModel_t"};
            CHK(cg_equationset_chemistry_read(&mf[5], &mf[6]));          /* same position as cg_equationset_read */
            CHK(cg_equationset_elecmagn_read(&mf[7], &mf[8], &mf[9]));
            push("FlowEquationSet_t.FlowEquationSet", 1, "FlowEquationSet_t", 1);
            r_none(NULL, "FlowEquationSet");
            if (ed) { long long v = ed; r_ints1("/\"int\".EquationDimension:1", "EquationDimension", 1, &v); }
            if (gf && !go()) {
                CGNS_ENUMT(GoverningEquationsType_t) gt;
                CHK(cg_governing_read(&gt));
                push("GoverningEquations_t.GoverningEquations", 1, "GoverningEquations_t", 1);
                r_enum(NULL, "GoverningEquations", (int)gt);
                read_diffusion();
                ctx_read(F_DESCR | F_UDATA);
                pop(1);
            }
            for (int m = 0; m < 10; m++) {
                if (!mf[m] || go()) continue;
                CGNS_ENUMT(ModelType_t) mt; char kind[80], nm[40];
                CHK(cg_model_read(ML[m], &mt));
                strcpy(nm, ML[m]); nm[strlen(nm) - 2] = 0;
                sprintf(kind, "%s.%s", ML[m], nm);
                push(kind, 1, ML[m], 1);
                r_enum(NULL, nm, (int)mt);
                if (m == 4) read_diffusion();
                ctx_read(F_DDDU | F_ARRAYS);
                pop(1);
            }
            ctx_read(F_DDDU);
            pop(1);
        } else if (rc != CG_NODE_NOT_FOUND) { nerr++; printf("X %s cg_equationset_read %d\n", RP, rc); }
    }
    if ((mask & T2_PEQ) && !go()) {
        int ed = 0, gf = 0, mf[5] = {0};
        rc = cg_particle_equationset_read(&ed, &gf, &mf[0], &mf[1], &mf[2], &mf[3], &mf[4]);
        if (rc == CG_OK) {
            static const char *PL[5] = {"ParticleCollisionModel_t", "ParticleBreakupModel_t", "ParticleForceModel_t",
                "ParticleWallInteractionModel_t", "ParticlePhaseChangeModel_t"};
            push("ParticleEquationSet_t.ParticleEquationSet", 1, "ParticleEquationSet_t", 1);
            r_none(NULL, "ParticleEquationSet");
            if (ed) { long long v = ed; r_ints1("/\"int\".EquationDimension:1", "EquationDimension", 1, &v); }
            if (gf && !go()) {
                CGNS_ENUMT(ParticleGoverningEquationsType_t) gt;
                CHK(cg_particle_governing_read(&gt));
                push("ParticleGoverningEquations_t.ParticleGoverningEquations", 1, "ParticleGoverningEquations_t", 1);
                r_enum(NULL, "ParticleGoverningEquations", (int)gt);
                ctx_read(F_DESCR | F_UDATA);
                pop(1);
            }
            for (int m = 0; m < 5; m++) {
                if (!mf[m] || go()) continue;
                CGNS_ENUMT(ParticleModelType_t) mt; char kind[90], nm[50];
                CHK(cg_particle_model_read(PL[m], &mt));
                strcpy(nm, PL[m]); nm[strlen(nm) - 2] = 0;
                sprintf(kind, "%s.%s", PL[m], nm);
                push(kind, 1, PL[m], 1);
                r_enum(NULL, nm, (int)mt);
                ctx_read(F_DDDU | F_ARRAYS);
                pop(1);
            }
            ctx_read(F_DDDU);
            pop(1);
        } else if (rc != CG_NODE_NOT_FOUND) { nerr++; printf("X %s cg_particle_equationset_read %d\n", RP, rc); }
    }
    if ((mask & T2_ROT) && !go()) {
        float rate[3] = {0, 0, 0}, center[3] = {0, 0, 0};
        rc = cg_rotating_read(rate, center);
        if (rc == CG_OK) {
            push("RotatingCoordinates_t.RotatingCoordinates", 1, "RotatingCoordinates_t", 1);
            r_none(NULL, "RotatingCoordinates");
            ctx_read(F_DDDU | F_ARRAYS);
            pop(1);
        } else if (rc != CG_NODE_NOT_FOUND) { nerr++; printf("X %s cg_rotating_read %d\n", RP, rc); }
    }
}

/* ---- tranche 3: particle zones */
static void read_pzone(int B, int P)
{
    char name[64]; cgsize_t np = 0; long long v; int n;
    CHK(cg_particle_read(fn, B, P, name, &np));
    cur_idim = 1;
    push("ParticleZone_t", P, "ParticleZone_t", P);
    v = np; r_ints1(NULL, name, 1, &v);
    ctx_read(F_DDDU | F_FAMNAME | (opt_pz_multifam ? F_MULTIFAM : 0));
    n = 0; CHK(cg_particle_ncoord_nodes(fn, B, P, &n));
    for (int g = 1; g <= n; g++) {
        char gname[64];
        CHK(cg_particle_coord_node_read(fn, B, P, g, gname));
        push("ParticleCoordinates_t", g, "ParticleCoordinates_t", g);
        r_none(NULL, gname);
        ctx_read(F_DDDU);
        if (!strcmp(gname, "ParticleCoordinates")) {
            int nc = 0;
            CHK(cg_particle_ncoords(fn, B, P, &nc));
            for (int c = 1; c <= nc; c++) {
                char cname[64]; CGNS_ENUMT(DataType_t) dt; cgsize_t rmin = 1, rmax = np, ad = np;
                CHK(cg_particle_coord_info(fn, B, P, c, &dt, cname));
                void *buf = calloc((size_t)np + 2, dt_bytes(dt));
                CHK(cg_particle_coord_read(fn, B, P, cname, dt, &rmin, &rmax, buf));
                push("DataArray_t", c, "DataArray_t", c);
                r_arr(NULL, cname, dt_name(dt), 1, &ad, buf, (size_t)np * dt_bytes(dt));
                free(buf);
                ctx_read(F_DDD | F_CONV | F_EXP);
                pop(1);
            }
        } else read_arrays_here();
        pop(1);
    }
    n = 0; CHK(cg_particle_nsols(fn, B, P, &n));
    for (int s = 1; s <= n; s++) {
        char sname[64]; int nf = 0; cgsize_t size = 0;
        CHK(cg_particle_sol_info(fn, B, P, s, sname));
        push("ParticleSolution_t", s, "ParticleSolution_t", s);
        r_none(NULL, sname);
        ctx_read(F_DDDU);
        {   /* the point set through the particle API (cg_ptset_read cannot resolve an index dimension outside a Zone_t) */
            CGNS_ENUMT(PointSetType_t) pt; cgsize_t npp = 0;
            CHK(cg_particle_sol_ptset_info(fn, B, P, s, &pt, &npp));
            if (npp > 0) {
                cgsize_t *pp = (cgsize_t *)calloc((size_t)npp + 2, sizeof(cgsize_t));
                long long *pv = (long long *)calloc((size_t)npp + 2, sizeof(long long)), d[2];
                CHK(cg_particle_sol_ptset_read(fn, B, P, s, pp));
                for (long long i = 0; i < npp; i++) pv[i] = pp[i];
                d[0] = 1; d[1] = npp;
                if (pt == CGNS_ENUMV(PointRange)) r_ints("/IndexRange_t.PointRange:1", "PointRange", 2, d, pv);
                else r_ints("/IndexArray_t.PointList:1", PointSetTypeName[pt], 2, d, pv);
                free(pp); free(pv);
            }
        }
        CHK(cg_particle_sol_size(fn, B, P, s, &size));
        CHK(cg_particle_nfields(fn, B, P, s, &nf));
        for (int f = 1; f <= nf; f++) {
            char fname[64]; CGNS_ENUMT(DataType_t) dt; cgsize_t rmin = 1, rmax = size, ad = size;
            CHK(cg_particle_field_info(fn, B, P, s, f, &dt, fname));
            void *buf = calloc((size_t)size + 2, dt_bytes(dt));
            CHK(cg_particle_field_read(fn, B, P, s, fname, dt, &rmin, &rmax, buf));
            push("DataArray_t", f, "DataArray_t", f);
            r_arr(NULL, fname, dt_name(dt), 1, &ad, buf, (size_t)size * dt_bytes(dt));
            free(buf);
            ctx_read(F_DDD | F_CONV | F_EXP);
            pop(1);
        }
        pop(1);
    }
    read_common_t2(0, T2_STATE | (opt_pz_int ? T2_INT : 0) | T2_PEQ);
    { char pn[64]; int rc2 = cg_piter_read(fn, B, P, pn);
      if (rc2 == CG_OK) { push("ParticleIterativeData_t", 1, "ParticleIterativeData_t", 1); r_none(NULL, pn); ctx_read(F_DDDU | F_ARRAYS); pop(1); }
      else if (rc2 != CG_NODE_NOT_FOUND) { nerr++; printf("X %s cg_piter_read %d\n", RP, rc2); } }
    pop(1);
}

/* BCProperty_t of the BC at the stack top / GridConnectivityProperty_t of a connectivity (one21 = 1: a 1to1 interface) */
static void read_bprop(int B, int Z, int BC)
{
    push("BCProperty_t.BCProperty", 1, "BCProperty_t", 1);
    if (cg_golist(fn, GB, GD, GL, GI) == CG_OK) {
        CGNS_ENUMT(WallFunctionType_t) wt; CGNS_ENUMT(AreaType_t) at; float sa; char rn[64]; int rc;
        r_none(NULL, "BCProperty");
        ctx_read(F_DESCR | F_UDATA);
        rc = cg_bc_wallfunction_read(fn, B, Z, BC, &wt);
        if (rc == CG_OK) {
            push("WallFunction_t.WallFunction", 1, "WallFunction_t", 1);
            r_none(NULL, "WallFunction");
            r_enum("/WallFunctionType_t.WallFunctionType:1", "WallFunctionType", (int)wt);
            ctx_read(F_DESCR | F_UDATA);
            pop(1);
        } else if (rc != CG_NODE_NOT_FOUND) { nerr++; printf("X %s cg_bc_wallfunction_read %d\n", RP, rc); }
        rc = cg_bc_area_read(fn, B, Z, BC, &at, &sa, rn);
        if (rc == CG_OK) {
            push("Area_t.Area", 1, "Area_t", 1);
            r_none(NULL, "Area");
            r_enum("/AreaType_t.AreaType:1", "AreaType", (int)at);
            ctx_read(F_DESCR | F_UDATA | F_ARRAYS);
            pop(1);
        } else if (rc != CG_NODE_NOT_FOUND) { nerr++; printf("X %s cg_bc_area_read %d\n", RP, rc); }
    }
    pop(1);
}
static void read_cprop(int B, int Z, int I, int one21)
{
    push("GridConnectivityProperty_t.GridConnectivityProperty", 1, "GridConnectivityProperty_t", 1);
    if (cg_golist(fn, GB, GD, GL, GI) == CG_OK) {
        float a[3], b[3], c[3]; CGNS_ENUMT(AverageInterfaceType_t) at; int rc;
        r_none(NULL, "GridConnectivityProperty");
        ctx_read(F_DESCR | F_UDATA);
        rc = one21 ? cg_1to1_average_read(fn, B, Z, I, &at) : cg_conn_average_read(fn, B, Z, I, &at);
        if (rc == CG_OK) {
            push("AverageInterface_t.AverageInterface", 1, "AverageInterface_t", 1);
            r_none(NULL, "AverageInterface");
            r_enum("/AverageInterfaceType_t.AverageInterfaceType:1", "AverageInterfaceType", (int)at);
            ctx_read(F_DESCR | F_UDATA);
            pop(1);
        } else if (rc != CG_NODE_NOT_FOUND) { nerr++; printf("X %s cg_*_average_read %d\n", RP, rc); }
        rc = one21 ? cg_1to1_periodic_read(fn, B, Z, I, a, b, c) : cg_conn_periodic_read(fn, B, Z, I, a, b, c);
        if (rc == CG_OK) {
            push("Periodic_t.Periodic", 1, "Periodic_t", 1);
            r_none(NULL, "Periodic");
            ctx_read(F_DDDU | F_ARRAYS);
            pop(1);
        } else if (rc != CG_NODE_NOT_FOUND) { nerr++; printf("X %s cg_*_periodic_read %d\n", RP, rc); }
    }
    pop(1);
}

/* a container with arrays and the usual children, reached by goto */
static void simple_container(const char *kind, int idx, const char *label, const char *name, int flags)
{
    push(kind, idx, label, idx);
    if (name) r_none(NULL, name);
    ctx_read(flags);
    pop(1);
}

static void read_zone(int B, int Z)
{
    char name[64]; cgsize_t size[9]; long long dims[2], v[16]; CGNS_ENUMT(ZoneType_t) zt; int n, idim = 0;
    CHK(cg_zone_read(fn, B, Z, name, size));
    CHK(cg_zone_type(fn, B, Z, &zt));
    CHK(cg_index_dim(fn, B, Z, &idim));
    cur_idim = idim;
    push("Zone_t", Z, "Zone_t", Z);
    dims[0] = idim; dims[1] = 3;
    for (int i = 0; i < 3 * idim; i++) v[i] = size[i];
    r_ints(NULL, name, 2, dims, v);
    r_enum("/ZoneType_t.ZoneType:1", "ZoneType", (int)zt);
    ctx_read(F_DDDU | F_ORD | F_FAMNAME | F_MULTIFAM);

    /* ---- grids */
    n = 0; CHK(cg_ngrids(fn, B, Z, &n));
    for (int g = 1; g <= n; g++) {
        char gname[64];
        CHK(cg_grid_read(fn, B, Z, g, gname));
        push("GridCoordinates_t", g, "GridCoordinates_t", g);
        r_none(NULL, gname);
        ctx_read(F_DDDU | F_RIND);
        if (!strcmp(gname, "GridCoordinates")) {
            /* the coordinate API (cg_ncoords / cg_coord_info / cg_coord_read incl. rind planes) */
            int nc = 0, rind[12] = {0};
            if (!go()) CHK(cg_rind_read(rind));
            CHK(cg_ncoords(fn, B, Z, &nc));
            for (int c = 1; c <= nc; c++) {
                char cname[64]; CGNS_ENUMT(DataType_t) dt; cgsize_t rmin[3], rmax[3], ad[3]; size_t cnt = 1;
                CHK(cg_coord_info(fn, B, Z, c, &dt, cname));
                for (int k = 0; k < idim; k++) { rmin[k] = 1 - rind[2 * k]; rmax[k] = size[k] + rind[2 * k + 1]; ad[k] = rmax[k] - rmin[k] + 1; cnt *= (size_t)ad[k]; }
                void *buf = calloc(cnt + 2, dt_bytes(dt));
                CHK(cg_coord_read(fn, B, Z, cname, dt, rmin, rmax, buf));
                push("DataArray_t", c, "DataArray_t", c);
                r_arr(NULL, cname, dt_name(dt), idim, ad, buf, cnt * dt_bytes(dt));
                free(buf);
                ctx_read(F_DDD | F_CONV | F_EXP);
                pop(1);
            }
        } else read_arrays_here();
        pop(1);
    }
    /* ---- element sections */
    n = 0; CHK(cg_nsections(fn, B, Z, &n));
    for (int s = 1; s <= n; s++) {
        char sname[64]; CGNS_ENUMT(ElementType_t) et; cgsize_t st, en, esz = 0; int nb, pflag; long long d1, vv[2];
        CHK(cg_section_read(fn, B, Z, s, sname, &et, &st, &en, &nb, &pflag));
        CHK(cg_ElementDataSize(fn, B, Z, s, &esz));
        push("Elements_t", s, "Elements_t", s);
        vv[0] = et; vv[1] = nb; r_ints1(NULL, sname, 2, vv);
        vv[0] = st; vv[1] = en; r_ints1("/IndexRange_t.ElementRange:1", "ElementRange", 2, vv);
        cgsize_t ne = en - st + 1;
        cgsize_t *el = (cgsize_t *)calloc((size_t)esz + 2, sizeof(cgsize_t));
        cgsize_t *off = (cgsize_t *)calloc((size_t)ne + 3, sizeof(cgsize_t));
        cgsize_t *par = (cgsize_t *)calloc((size_t)ne * 4 + 4, sizeof(cgsize_t));
        int poly = (et == CGNS_ENUMV(MIXED) || et == CGNS_ENUMV(NGON_n) || et == CGNS_ENUMV(NFACE_n));
        if (poly) CHK(cg_poly_elements_read(fn, B, Z, s, el, off, pflag ? par : NULL));
        else CHK(cg_elements_read(fn, B, Z, s, el, pflag ? par : NULL));
        d1 = esz;
        { cgsize_t dd = esz; r_arr("/DataArray_t.ElementConnectivity:1", "ElementConnectivity", "I8", 1, &dd, el, (size_t)esz * sizeof(cgsize_t)); }
        if (poly) { cgsize_t dd = ne + 1; r_arr("/DataArray_t.ElementStartOffset:1", "ElementStartOffset", "I8", 1, &dd, off, (size_t)(ne + 1) * sizeof(cgsize_t)); }
        if (pflag) {
            cgsize_t dd[2]; dd[0] = ne; dd[1] = 2;
            r_arr("/DataArray_t.ParentElements:1", "ParentElements", "I8", 2, dd, par, (size_t)ne * 2 * sizeof(cgsize_t));
            r_arr("/DataArray_t.ParentElementsPosition:1", "ParentElementsPosition", "I8", 2, dd, par + 2 * ne, (size_t)ne * 2 * sizeof(cgsize_t));
        }
        (void)d1;
        free(el); free(off); free(par);
        ctx_read(F_DESCR | F_UDATA | F_RIND);
        pop(1);
    }
    /* ---- flow solutions */
    n = 0; CHK(cg_nsols(fn, B, Z, &n));
    for (int s = 1; s <= n; s++) {
        char sname[64]; CGNS_ENUMT(GridLocation_t) loc; int nf = 0, rind[12] = {0}, dd = 0; cgsize_t sdims[3];
        CGNS_ENUMT(PointSetType_t) pt = CGNS_ENUMV(PointSetTypeNull); cgsize_t np = 0;
        CHK(cg_sol_info(fn, B, Z, s, sname, &loc));
        push("FlowSolution_t", s, "FlowSolution_t", s);
        r_none(NULL, sname);
        ctx_read(F_DDDU | F_LOC | F_RIND | F_PTSET);
        { CGNS_ENUMT(GridLocation_t) l2 = loc; if (!go()) { CHK(cg_gridlocation_read(&l2)); if (l2 != loc) { nerr++; printf("X %s location %d %d\n", RP, (int)loc, (int)l2); } } }
        if (!go()) CHK(cg_rind_read(rind));
        CHK(cg_sol_ptset_info(fn, B, Z, s, &pt, &np));
        CHK(cg_sol_size(fn, B, Z, s, &dd, sdims));
        CHK(cg_nfields(fn, B, Z, s, &nf));
        for (int f = 1; f <= nf; f++) {
            char fname[64]; CGNS_ENUMT(DataType_t) dt; cgsize_t rmin[3], rmax[3], ad[3]; size_t cnt = 1;
            CHK(cg_field_info(fn, B, Z, s, f, &dt, fname));
            for (int k = 0; k < dd; k++) {
                int r0 = np ? 0 : rind[2 * k], r1 = np ? 0 : rind[2 * k + 1];
                rmin[k] = 1 - r0; rmax[k] = sdims[k] - r0; ad[k] = sdims[k]; cnt *= (size_t)ad[k]; (void)r1;
            }
            void *buf = calloc(cnt + 2, dt_bytes(dt));
            CHK(cg_field_read(fn, B, Z, s, fname, dt, rmin, rmax, buf));
            push("DataArray_t", f, "DataArray_t", f);
            r_arr(NULL, fname, dt_name(dt), dd, ad, buf, cnt * dt_bytes(dt));
            free(buf);
            ctx_read(F_DDD | F_CONV | F_EXP);
            pop(1);
        }
        pop(1);
    }
    /* ---- boundary conditions */
    n = 0; CHK(cg_nbocos(fn, B, Z, &n));
    push("ZoneBC_t.ZoneBC", 1, "ZoneBC_t", 1);
    if (cg_golist(fn, GB, GD, GL, GI) == CG_OK) {
        r_none(NULL, "ZoneBC");
        ctx_read(F_DDDU);
        for (int b = 1; b <= n; b++) {
            char bname[64]; CGNS_ENUMT(BCType_t) bt; CGNS_ENUMT(PointSetType_t) pt; cgsize_t np = 0, nls = 0; int nidx[3] = {0, 0, 0}, nds = 0;
            CGNS_ENUMT(DataType_t) ndt; CGNS_ENUMT(GridLocation_t) loc;
            CHK(cg_boco_info(fn, B, Z, b, bname, &bt, &pt, &np, nidx, &nls, &ndt, &nds));
            push("BC_t", b, "BC_t", b);
            r_enum(NULL, bname, (int)bt);
            cgsize_t *p = (cgsize_t *)calloc((size_t)(np * idim) + 2, sizeof(cgsize_t));
            void *nl = calloc((size_t)nls + 2, 8);
            CHK(cg_boco_read(fn, B, Z, b, p, nls ? nl : NULL));
            { long long d[2], *v = (long long *)calloc((size_t)(np * idim) + 2, sizeof(long long));
              for (long long i = 0; i < np * idim; i++) v[i] = p[i];
              d[0] = idim; d[1] = np;
              if (pt == CGNS_ENUMV(PointRange)) r_ints("/IndexRange_t.PointRange:1", "PointRange", 2, d, v);
              else r_ints("/IndexArray_t.PointList:1", PointSetTypeName[pt], 2, d, v);
              free(v); }
            if (nls) { cgsize_t d[2]; d[0] = cur_phys; d[1] = nls / cur_phys;
                       r_arr("/IndexArray_t.InwardNormalList:1", "InwardNormalList", dt_name(ndt), 2, d, nl, (size_t)nls * dt_bytes(ndt)); }
            if (nidx[0] || nidx[1] || nidx[2]) { long long v[3]; for (int k = 0; k < 3; k++) v[k] = nidx[k];
                       r_ints1("/\"int[IndexDimension]\".InwardNormalIndex:1", "InwardNormalIndex", idim, v); }
            free(p); free(nl);
            CHK(cg_boco_gridlocation_read(fn, B, Z, b, &loc));
            r_enum("/GridLocation_t.GridLocation:1", "GridLocation", (int)loc);
            ctx_read(F_DDDU | F_ORD | F_FAMNAME | F_MULTIFAM);
            read_bprop(B, Z, b);
            for (int d = 1; d <= nds; d++) {
                char dname[64]; CGNS_ENUMT(BCType_t) dbt; int dir = 0, neu = 0;
                CHK(cg_dataset_read(fn, B, Z, b, d, dname, &dbt, &dir, &neu));
                push("BCDataSet_t", d, "BCDataSet_t", d);
                r_enum(NULL, dname, (int)dbt);
                ctx_read(F_DDDU | F_LOC | F_PTSET);
                if (dir) { push("BCData_t.DirichletData", 1, "BCData_t", CGNS_ENUMV(Dirichlet)); r_none(NULL, "DirichletData"); ctx_read(F_DDDU | F_ARRAYS); pop(1); }
                if (neu) { push("BCData_t.NeumannData", 1, "BCData_t", CGNS_ENUMV(Neumann)); r_none(NULL, "NeumannData"); ctx_read(F_DDDU | F_ARRAYS); pop(1); }
                pop(1);
            }
            pop(1);
        }
    }
    pop(1);
    /* ---- tranche 2 under the zone */
    read_common_t2(0, T2_STATE | T2_CONV | T2_INT | T2_EQ | T2_ROT);
    n = 0; CHK(cg_nsubregs(fn, B, Z, &n));
    for (int s = 1; s <= n; s++) {
        char sn[64], txt[64]; int dim = 0, bl = 0, gl = 0, shift = 0; CGNS_ENUMT(GridLocation_t) loc; CGNS_ENUMT(PointSetType_t) pt; cgsize_t np = 0;
        long long v;
        CHK(cg_subreg_info(fn, B, Z, s, sn, &dim, &loc, &pt, &np, &bl, &gl));
        push("ZoneSubRegion_t", s, "ZoneSubRegion_t", s);
        v = dim; r_ints1(NULL, sn, 1, &v);
        /* the region name the API returns separately is the FIRST Descriptor_t child the writer created */
        if (bl) { CHK(cg_subreg_bcname_read(fn, B, Z, s, txt)); r_str("/Descriptor_t:1", "BCRegionName", txt); shift = 1; }
        if (gl) { CHK(cg_subreg_gcname_read(fn, B, Z, s, txt)); r_str("/Descriptor_t:1", "GridConnectivityRegionName", txt); shift = 1; }
        if (!go()) {
            int nd = 0;
            CHK(cg_ndescriptors(&nd));
            for (int i = 1; i <= nd; i++) {
                char nm[64], sub[64]; char *text = NULL;
                if (cg_descriptor_read(i, nm, &text)) { nerr++; continue; }
                sprintf(sub, "/Descriptor_t:%d", i + shift);
                r_str(sub, nm, text ? text : "");
                if (text) cg_free(text);
            }
        }
        ctx_read(F_DCLASS | F_UNITS | F_UDATA | F_LOC | F_RIND | F_FAMNAME | F_MULTIFAM | F_PTSET | F_ARRAYS);
        pop(1);
    }
    n = 0; CHK(cg_ndiscrete(fn, B, Z, &n));
    for (int d = 1; d <= n; d++) {
        char dn[64];
        CHK(cg_discrete_read(fn, B, Z, d, dn));
        push("DiscreteData_t", d, "DiscreteData_t", d);
        r_none(NULL, dn);
        ctx_read(F_DDDU | F_LOC | F_RIND | F_ARRAYS | F_PTSET);
        pop(1);
    }
    n = 0; CHK(cg_n_rigid_motions(fn, B, Z, &n));
    for (int r = 1; r <= n; r++) {
        char rn[64]; CGNS_ENUMT(RigidGridMotionType_t) rt;
        CHK(cg_rigid_motion_read(fn, B, Z, r, rn, &rt));
        push("RigidGridMotion_t", r, "RigidGridMotion_t", r);
        r_enum(NULL, rn, (int)rt);
        ctx_read(F_DDDU | F_ARRAYS);
        pop(1);
    }
    n = 0; CHK(cg_n_arbitrary_motions(fn, B, Z, &n));
    for (int a = 1; a <= n; a++) {
        char an[64]; CGNS_ENUMT(ArbitraryGridMotionType_t) at;
        CHK(cg_arbitrary_motion_read(fn, B, Z, a, an, &at));
        push("ArbitraryGridMotion_t", a, "ArbitraryGridMotion_t", a);
        r_enum(NULL, an, (int)at);
        ctx_read(F_DDDU | F_LOC | F_RIND | F_ARRAYS);
        pop(1);
    }
    { char zn[64]; int rc2 = cg_ziter_read(fn, B, Z, zn);
      if (rc2 == CG_OK) { push("ZoneIterativeData_t", 1, "ZoneIterativeData_t", 1); r_none(NULL, zn); ctx_read(F_DDDU | F_ARRAYS); pop(1); }
      else if (rc2 != CG_NODE_NOT_FOUND) { nerr++; printf("X %s cg_ziter_read %d\n", RP, rc2); } }
    /* ---- connectivities */
    { int nzc = 0; CHK(cg_nzconns(fn, B, Z, &nzc));
      for (int c = 1; c <= nzc; c++) {
        char zcname[64]; int k = 0;
        CHK(cg_zconn_read(fn, B, Z, c, zcname));      /* also makes it the current one */
        push("ZoneGridConnectivity_t", c, "ZoneGridConnectivity_t", c);
        r_none(NULL, zcname);
        ctx_read(F_DESCR | F_UDATA);
        k = 0; CHK(cg_n1to1(fn, B, Z, &k));
        for (int i = 1; i <= k; i++) {
            char cname[64], donor[64]; cgsize_t r[6], dr[6]; int tr[3]; long long d[2], v[6], t3[3];
            CHK(cg_1to1_read(fn, B, Z, i, cname, donor, r, dr, tr));
            push("GridConnectivity1to1_t", i, "GridConnectivity1to1_t", i);
            r_str(NULL, cname, donor);
            d[0] = idim; d[1] = 2;
            for (int q = 0; q < 2 * idim; q++) v[q] = r[q];
            r_ints("/IndexRange_t.PointRange:1", "PointRange", 2, d, v);
            for (int q = 0; q < 2 * idim; q++) v[q] = dr[q];
            r_ints("/IndexRange_t.PointRangeDonor:1", "PointRangeDonor", 2, d, v);
            for (int q = 0; q < idim; q++) t3[q] = tr[q];
            r_ints1("/\"int[IndexDimension]\".Transform:1", "Transform", idim, t3);
            ctx_read(F_DESCR | F_UDATA | F_ORD);
            read_cprop(B, Z, i, 1);
            pop(1);
        }
        k = 0; CHK(cg_nconns(fn, B, Z, &k));
        for (int i = 1; i <= k; i++) {
            char cname[64], donor[64]; CGNS_ENUMT(GridLocation_t) loc; CGNS_ENUMT(GridConnectivityType_t) ct;
            CGNS_ENUMT(PointSetType_t) pt, dpt; cgsize_t np = 0, nd = 0; CGNS_ENUMT(ZoneType_t) dzt; CGNS_ENUMT(DataType_t) ddt;
            CHK(cg_conn_info(fn, B, Z, i, cname, &loc, &ct, &pt, &np, donor, &dzt, &dpt, &ddt, &nd));
            push("GridConnectivity_t", i, "GridConnectivity_t", i);
            r_str(NULL, cname, donor);
            r_enum("/GridConnectivityType_t.GridConnectivityType:1", "GridConnectivityType", (int)ct);
            r_enum("/GridLocation_t.GridLocation:1", "GridLocation", (int)loc);
            int ddim = (dzt == CGNS_ENUMV(Structured)) ? cur_cell : 1;
            cgsize_t *p = (cgsize_t *)calloc((size_t)(np * idim) + 2, sizeof(cgsize_t));
            cgsize_t *dp = (cgsize_t *)calloc((size_t)(nd * 3) + 2, sizeof(cgsize_t));
            CHK(cg_conn_read(fn, B, Z, i, p, CGNS_ENUMV(LongInteger), nd ? dp : NULL));
            { long long d[2], *v = (long long *)calloc((size_t)(np * idim + nd * 3) + 2, sizeof(long long));
              for (long long q = 0; q < np * idim; q++) v[q] = p[q];
              d[0] = idim; d[1] = np;
              if (pt == CGNS_ENUMV(PointRange)) r_ints("/IndexRange_t.PointRange:1", "PointRange", 2, d, v);
              else r_ints("/IndexArray_t.PointList:1", "PointList", 2, d, v);
              if (nd) {
                  for (long long q = 0; q < nd * ddim; q++) v[q] = dp[q];
                  d[0] = ddim; d[1] = nd;
                  if (dpt == CGNS_ENUMV(CellListDonor)) r_ints("/IndexArray_t.CellListDonor:1", "CellListDonor", 2, d, v);
                  else r_ints("/IndexArray_t.PointListDonor:1", "PointListDonor", 2, d, v);
              }
              free(v); }
            free(p); free(dp);
            ctx_read(F_DESCR | F_UDATA | F_ORD);
            read_cprop(B, Z, i, 0);
            pop(1);
        }
        k = 0; CHK(cg_nholes(fn, B, Z, &k));
        for (int i = 1; i <= k; i++) {
            char hname[64]; CGNS_ENUMT(GridLocation_t) loc; CGNS_ENUMT(PointSetType_t) pt; int nps = 0; cgsize_t np = 0;
            CHK(cg_hole_info(fn, B, Z, i, hname, &loc, &pt, &nps, &np));
            push("OversetHoles_t", i, "OversetHoles_t", i);
            r_none(NULL, hname);
            r_enum("/GridLocation_t.GridLocation:1", "GridLocation", (int)loc);
            size_t tot = (pt == CGNS_ENUMV(PointRange)) ? (size_t)(2 * idim * nps) : (size_t)(np * idim);
            cgsize_t *p = (cgsize_t *)calloc(tot + 2, sizeof(cgsize_t));
            if (tot) CHK(cg_hole_read(fn, B, Z, i, p));
            if (pt == CGNS_ENUMV(PointRange)) {
                for (int q = 0; q < nps; q++) {
                    char sub[64], pn[64]; long long d[2], v[6];
                    d[0] = idim; d[1] = 2;
                    for (int w = 0; w < 2 * idim; w++) v[w] = p[2 * idim * q + w];
                    sprintf(sub, "/IndexRange_t:%d", q + 1); sprintf(pn, "PointRange%d", q + 1);
                    r_ints(sub, pn, 2, d, v);
                }
            } else if (np > 0) {
                long long d[2], *v = (long long *)calloc(tot + 2, sizeof(long long));
                for (size_t w = 0; w < tot; w++) v[w] = p[w];
                d[0] = idim; d[1] = np;
                r_ints("/IndexArray_t.PointList:1", "PointList", 2, d, v);
                free(v);
            }
            free(p);
            ctx_read(F_DESCR | F_UDATA);
            pop(1);
        }
        pop(1);
      }
    }
    pop(1);
}

/* FamilyBCDataSet_t children of the FamilyBC_t at the stack top */
static void read_fambc_datasets(void)
{
    int nd = 0;
    if (go()) return;
    CHK(cg_bcdataset_info(&nd));
    for (int d = 1; d <= nd; d++) {
        char dn[64]; CGNS_ENUMT(BCType_t) bt; int dir = 0, neu = 0;
        if (go()) return;
        CHK(cg_bcdataset_read(d, dn, &bt, &dir, &neu));
        push("FamilyBCDataSet_t", d, "FamilyBCDataSet_t", d);
        r_enum(NULL, dn, (int)bt);
        ctx_read(F_DDDU);
        if (dir) { push("BCData_t.DirichletData", 1, "BCData_t", CGNS_ENUMV(Dirichlet)); r_none(NULL, "DirichletData"); ctx_read(F_DDDU | F_ARRAYS); pop(1); }
        if (neu) { push("BCData_t.NeumannData", 1, "BCData_t", CGNS_ENUMV(Neumann)); r_none(NULL, "NeumannData"); ctx_read(F_DDDU | F_ARRAYS); pop(1); }
        pop(1);
    }
}
/* the Family_t children of the Family_t at the stack top, through the node-context API (family tree) */
static void read_nested_families(int depth)
{
    int n = 0;
    if (depth > 3 || go()) return;
    CHK(cg_node_nfamilies(&n));
    for (int f = 1; f <= n; f++) {
        char name[64]; int nb = 0, ng = 0, nn = 0;
        if (go()) return;
        CHK(cg_node_family_read(f, name, &nb, &ng));
        push("Family_t", f, "Family_t", f);
        r_none(NULL, name);
        ctx_read(F_DESCR | F_UDATA | F_ORD);
        for (int i = 1; i <= nb; i++) {
            char bname[64]; CGNS_ENUMT(BCType_t) bt;
            if (go()) break;
            CHK(cg_node_fambc_read(i, bname, &bt));
            push("FamilyBC_t", i, "FamilyBC_t", i);
            r_enum(NULL, bname, (int)bt);
            read_fambc_datasets();
            pop(1);
        }
        if (!go()) {
            CHK(cg_node_nfamily_names(&nn));
            for (int i = 1; i <= nn; i++) {
                char nm[64], fam[1024], sub[64];
                if (go()) break;
                CHK(cg_node_family_name_read(i, nm, fam));
                sprintf(sub, "/FamilyName_t:%d", i);
                r_str(sub, nm, fam);
            }
        }
        read_nested_families(depth + 1);
        pop(1);
    }
}

static void read_family(int B, int F)
{
    char name[64]; int nb = 0, ng = 0, nn = 0;
    CHK(cg_family_read(fn, B, F, name, &nb, &ng));
    push("Family_t", F, "Family_t", F);
    r_none(NULL, name);
    ctx_read(F_DESCR | F_UDATA | F_ORD);
    for (int i = 1; i <= nb; i++) {
        char bname[64], sub[64]; CGNS_ENUMT(BCType_t) bt;
        CHK(cg_fambc_read(fn, B, F, i, bname, &bt));
        (void)sub;
        push("FamilyBC_t", i, "FamilyBC_t", i);
        r_enum(NULL, bname, (int)bt);
        read_fambc_datasets();
        pop(1);
    }
    read_nested_families(1);
    for (int g = 1; g <= ng; g++) {
        char gname[64], cad[64]; char *file = NULL; int np = 0;
        CHK(cg_geo_read(fn, B, F, g, gname, &file, cad, &np));
        push("GeometryReference_t", g, "GeometryReference_t", g);
        r_none(NULL, gname);
        r_str("/GeometryFile_t.GeometryFile:1", "GeometryFile", file ? file : "");
        r_str("/GeometryFormat_t.GeometryFormat:1", "GeometryFormat", cad);
        if (file) cg_free(file);
        for (int p = 1; p <= np; p++) {
            char pname[64], sub[64];
            CHK(cg_part_read(fn, B, F, g, p, pname));
            sprintf(sub, "/GeometryEntity_t:%d", p);
            r_none(sub, pname);
        }
        ctx_read(F_DESCR | F_UDATA);
        pop(1);
    }
    if (opt_multifam && !go()) {
        int nm = 0, rc2 = cg_nmultifam(&nm);
        if (rc2) { nerr++; printf("X %s cg_nmultifam %d\n", RP, rc2); }
        for (int i = 1; i <= nm; i++) {
            char nam[64], fam[1024], sub[64];
            if (go()) break;
            if (cg_multifam_read(i, nam, fam)) { nerr++; continue; }
            sprintf(sub, "/AdditionalFamilyName_t:%d", i);
            r_str(sub, nam, fam);
        }
    }
    CHK(cg_nfamily_names(fn, B, F, &nn));
    for (int i = 1; i <= nn; i++) {
        char nm[64], fam[1024], sub[64];
        CHK(cg_family_name_read(fn, B, F, i, nm, fam));
        sprintf(sub, "/FamilyName_t:%d", i);
        r_str(sub, nm, fam);
    }
    pop(1);
}

static void do_read(const char *file)
{
    int rc, nb = 0; float ver = 0; cgsize_t one = 1;
    RP[0] = 0; RD = 0; GD = 0; nerr = 0;
    rc = cg_open(file, CG_MODE_READ, &fn);
    if (rc) {
        char msg[64]; const char *e = cg_get_error(); int k = 0;
        for (; *e && k < 48; e++) msg[k++] = ((*e >= 'a' && *e <= 'z') || (*e >= 'A' && *e <= 'Z') || *e == '_') ? *e : '.';
        msg[k] = 0;
        ERR(rc, "open r"); printf("E read open:%d %s\n", rc, msg); return;
    }
    CHK(cg_version(fn, &ver));
    r_arr("/CGNSLibraryVersion_t.CGNSLibraryVersion:1", "CGNSLibraryVersion", "R4", 1, &one, &ver, 4);
    CHK(cg_nbases(fn, &nb));
    for (int B = 1; B <= nb; B++) {
        char name[64]; int cd = 0, pd = 0, n; long long v[2];
        CHK(cg_base_read(fn, B, name, &cd, &pd));
        cur_cell = cd; cur_phys = pd; cur_idim = 0;
        GB = B; GD = 0;
        push("CGNSBase_t", B, NULL, 0);
        v[0] = cd; v[1] = pd; r_ints1(NULL, name, 2, v);
        ctx_read(F_DDDU);
        read_common_t2(1, T2_STATE | T2_CONV | T2_INT | T2_EQ | T2_ROT | T2_PEQ);
        { CGNS_ENUMT(SimulationType_t) st; int rc2 = cg_simulation_type_read(fn, B, &st);
          if (rc2 == CG_OK && st != CGNS_ENUMV(SimulationTypeNull)) r_enum("/SimulationType_t.SimulationType:1", "SimulationType", (int)st);
          else if (rc2 != CG_OK && rc2 != CG_NODE_NOT_FOUND) { nerr++; printf("X %s cg_simulation_type_read %d\n", RP, rc2); } }
        { char bn[64]; int ns = 0; int rc2 = cg_biter_read(fn, B, bn, &ns);
          if (rc2 == CG_OK) { long long v = ns; push("BaseIterativeData_t", 1, "BaseIterativeData_t", 1); r_ints1(NULL, bn, 1, &v); ctx_read(F_DDDU | F_ARRAYS); pop(1); }
          else if (rc2 != CG_NODE_NOT_FOUND) { nerr++; printf("X %s cg_biter_read %d\n", RP, rc2); } }
        { float g[3] = {0, 0, 0}; int rc2 = cg_gravity_read(fn, B, g);
          if (rc2 == CG_OK) { push("Gravity_t.Gravity", 1, "Gravity_t", 1); r_none(NULL, "Gravity"); ctx_read(F_DDDU | F_ARRAYS); pop(1); }
          else if (rc2 != CG_NODE_NOT_FOUND) { nerr++; printf("X %s cg_gravity_read %d\n", RP, rc2); } }
        { float a1[3] = {0, 0, 0}, a2[3] = {0, 0, 0}; int rc2 = cg_axisym_read(fn, B, a1, a2);
          if (rc2 == CG_OK) { push("Axisymmetry_t.Axisymmetry", 1, "Axisymmetry_t", 1); r_none(NULL, "Axisymmetry"); ctx_read(F_DDDU | F_ARRAYS); pop(1); }
          else if (rc2 != CG_NODE_NOT_FOUND) { nerr++; printf("X %s cg_axisym_read %d\n", RP, rc2); } }
        n = 0; CHK(cg_nfamilies(fn, B, &n));
        for (int F = 1; F <= n; F++) read_family(B, F);
        n = 0; CHK(cg_nparticle_zones(fn, B, &n));
        for (int P = 1; P <= n; P++) read_pzone(B, P);
        cur_idim = 0;
        n = 0; CHK(cg_nzones(fn, B, &n));
        for (int Z = 1; Z <= n; Z++) read_zone(B, Z);
        pop(0);
    }
    rc = cg_close(fn);
    printf("E read %s%d errors=%d\n", rc ? "close:" : "ok:", rc, nerr);
}

int main(void)
{
    static char line[1 << 24];
    dbg = getenv("C01_DEBUG") != NULL;
    while (fgets(line, sizeof line, stdin)) {
        if (!split(line)) continue;
        const char *c = W[0];
        int rc;
        if (!strcmp(c, "ft")) { rc = cg_set_file_type(!strcmp(W[1], "hdf5") ? CG_FILE_HDF5 : CG_FILE_ADF); printf("c %d\n", rc); }
        else if (!strcmp(c, "cfg")) {
            size_t v1 = NW > 2 ? (size_t)strtoull(W[2], NULL, 10) : 0, v2 = NW > 3 ? (size_t)strtoull(W[3], NULL, 10) : 0;
            static size_t al[2];
            if (!strcmp(W[1], "compress")) rc = cg_configure(CG_CONFIG_HDF5_COMPRESS, (void *)v1);
            else if (!strcmp(W[1], "diskless")) rc = cg_configure(CG_CONFIG_HDF5_DISKLESS, (void *)v1);
            else if (!strcmp(W[1], "diskless_write")) rc = cg_configure(CG_CONFIG_HDF5_DISKLESS_WRITE, (void *)v1);
            else if (!strcmp(W[1], "diskless_incr")) rc = cg_configure(CG_CONFIG_HDF5_DISKLESS_INCR, (void *)v1);
            else if (!strcmp(W[1], "alignment")) { al[0] = v1; al[1] = v2; rc = cg_configure(CG_CONFIG_HDF5_ALIGNMENT, (void *)al); }
            else if (!strcmp(W[1], "md_block")) rc = cg_configure(CG_CONFIG_HDF5_MD_BLOCK_SIZE, (void *)v1);
            else if (!strcmp(W[1], "buffer")) rc = cg_configure(CG_CONFIG_HDF5_BUFFER, (void *)v1);
            else if (!strcmp(W[1], "sieve")) rc = cg_configure(CG_CONFIG_HDF5_SIEVE_BUF_SIZE, (void *)v1);
            else if (!strcmp(W[1], "reset")) rc = cg_configure(CG_CONFIG_RESET, (void *)CG_CONFIG_RESET_HDF5);
            else rc = -9;
            ERR(rc, "cfg");
            printf("c %d\n", rc);
        }
        else if (!strcmp(c, "opt")) {
            if (!strcmp(W[1], "multifam")) opt_multifam = atoi(W[2]);
            else if (!strcmp(W[1], "pzone_multifam")) opt_pz_multifam = atoi(W[2]);
            else if (!strcmp(W[1], "pzone_integrals")) opt_pz_int = atoi(W[2]);
            else if (!strcmp(W[1], "slab_index")) opt_slab_index = atoi(W[2]);
            printf("c 0\n");
        }
        else if (!strcmp(c, "open")) {
            rc = cg_open(W[2], W[1][0] == 'w' ? CG_MODE_WRITE : W[1][0] == 'r' ? CG_MODE_READ : CG_MODE_MODIFY, &fn);
            ERR(rc, "open"); printf("c %d\n", rc);
        }
        else if (!strcmp(c, "close")) { rc = cg_close(fn); ERR(rc, "close"); printf("c %d\n", rc); }
        else if (!strcmp(c, "call") && NW >= 6) { SL.on = 0; do_call(); }
        else if (!strcmp(c, "callp") && NW >= 7) { parse_slab(W[1]); for (int i = 1; i + 1 < NW; i++) W[i] = W[i + 1]; NW--; do_call(); SL.on = 0; }
        else if (!strcmp(c, "dump")) do_dump(W[1]);
        else if (!strcmp(c, "read")) do_read(W[1]);
        else printf("badline %s\n", c);
        fflush(stdout);
    }
    return 0;
}
