/* c02d_alloc.c -- implementation side of the C02d tie (the ADF free-space manager: ADFI_file_malloc / ADFI_file_free,
   the free-chunk table and its three linked lists, end_of_file).

   usage:  c02d_alloc         script of harness/cgio_h.c (checks/nodedb.py language) on stdin, ADF files only; the API result
                              lines of cgio_h.c go to stdout unchanged.  Two more script lines are understood:
                                 snap <f> <k>     copy the bytes of script file f (current: the file overlaid with the
                                                  pending write block) to <path>.snap<k>          -> "A S <f> <k> <bytes> <path-hex>"
                                 view <f>         what the LIBRARY reads now (ADFI_read_file_header,
                                                  ADFI_read_free_chunk_table) for script file f   -> "A V ..."
   With the CGNS_VERIF trace hook of /repo 18501cc (compile with -DC02D_HAVE_HOOK) every call of the allocator is
   reported in between (ocaml/eng_c02d.ml replays these through the extracted AdfAlloc model):
     A O <fi> <size> <path-hex>                       ADFI_open_file took slot fi (size of the file at that moment)
     A M <fi> <size>                                  ADFI_file_malloc entered
     A m <fi> <size> <block> <offset> <err>           ADFI_file_malloc returns
     A F <fi> <block> <offset> <bytes> <fromtags> <eoc-block> <eoc-offset>
                                                      ADFI_file_free knows how many bytes it frees (fromtags 1: the caller
                                                      passed 0 and the size was read from the chunk's tags)
     A f <fi> <block> <offset> <bytes-passed> <err>   ADFI_file_free returns
   and, before the next script line is read, for every file whose allocator was called since the last dump:
     A L <fi> <end_of_file> <small> <small-last> <medium> <medium-last> <large> <large-last> <status>
        decoded BY THIS HARNESS from the bytes of the file (pread overlaid with the pending write block): the file
        header's end_of_file, the free-chunk table, and each list followed through next_chunk; a list is
        start:endtag,start:endtag,... or "-", a last pointer an address or "-"; status "ok" or what is malformed
        (tags, the 'x' fill of a free chunk, a cycle).
   Addresses are flat: block * 4096 + offset.  NO_ERROR is -1. */
#include <stdio.h>
#include <stdlib.h>
#include <string.h>
#include <unistd.h>
#include <fcntl.h>
#include <sys/stat.h>
#include "ADF.h"
#include "ADF_internals.h"
#include "cgns_io.h"

static char *c02d_gets(char *buf, int n, FILE *f);
#define main cgio_main
#define fgets c02d_gets
#include "cgio_h.c"
#undef fgets
#undef main

#define MAXFI 64
static int vfd[MAXFI], vdirty[MAXFI];
static char vpath[MAXFI][600];

static unsigned long long lev(const unsigned char *p, int n) { unsigned long long v = 0; int i; for (i = n - 1; i >= 0; i--) v = v * 256 + p[i]; return v; }

#ifdef C02D_HAVE_HOOK
/* authoritative bytes of [addr, addr+len) of slot fi: the file overlaid with the pending write block; returns how many
   leading bytes are defined */
static long long auth(int fi, long long addr, long long len, unsigned char *out)
{
    ADFI_VERIF_STATE st; long long n = 0, i, hi;
    ADFI_verif_cache_state(&st);
    memset(out, 0, len);
    if (fi >= 0 && fi < MAXFI && vfd[fi] >= 0 && len > 0) n = pread(vfd[fi], out, len, addr);
    if (n < 0) n = 0;
    hi = n;
    if (st.wr_flush > 0 && st.wr_file == fi) {
        long long b0 = st.wr_block * 4096LL;
        for (i = 0; i < len; i++) if (addr + i >= b0 && addr + i < b0 + 4096) { out[i] = (unsigned char)st.wr_buf[addr + i - b0]; if (i + 1 > hi) hi = i + 1; }
    }
    return hi;
}
static long long ptr_at(const unsigned char *p, int *blank)
{
    unsigned long long b = lev(p, 8), o = lev(p + 8, 4);
    *blank = (b == 0 && o == 4096);
    if (b >> 40) return -2;
    return (long long)(b * 4096ULL + o);
}
static const char *walk_list(int fi, long long first, int blank, long long last, int lblank, char *out, size_t cap)
{
    long long p = first, prev = -1; int steps = 0; size_t len = 0; const char *status = "ok";
    out[0] = 0;
    if (blank) { strcpy(out, "-"); return lblank ? "ok" : "last-not-blank-on-empty-list"; }
    while (1) {
        unsigned char h[28], t[4]; int b1, b2; long long e, nx, i;
        if (++steps > 20000) return "cycle";
        if (auth(fi, p, 28, h) < 28) return "free-chunk-beyond-file";
        if (memcmp(h, "FreE", 4)) status = "free-chunk-start-tag";
        e = ptr_at(h + 4, &b1); nx = ptr_at(h + 16, &b2);
        if (e < p + 28 || e - p > (1LL << 32)) return "free-chunk-end-pointer";
        if (auth(fi, e, 4, t) < 4 || memcmp(t, "EndC", 4)) status = "free-chunk-end-tag";
        {   /* the 'x' fill between the two pointers and the end tag */
            long long n = e - (p + 28); unsigned char *x = (unsigned char *)malloc(n + 1);
            if (auth(fi, p + 28, n, x) < n) status = "free-chunk-fill-short";
            for (i = 0; i < n; i++) if (x[i] != 'x') { status = "free-chunk-fill"; break; }
            free(x);
        }
        len += snprintf(out + len, cap - len, "%s%lld:%lld", len ? "," : "", p, e);
        if (len + 64 > cap) return "too-long";
        prev = p;
        if (b2) break;
        p = nx;
    }
    if (lblank || last != prev) return strcmp(status, "ok") ? status : "last-pointer";
    return status;
}
static void dump_lists(int fi)
{
    unsigned char fh[186], t[80]; static char l[3][400000]; const char *st[3]; int i, bl; long long eofa;
    const char *status = "ok"; long long first[3], last[3]; int fb[3], lb[3];
    if (auth(fi, 0, 186, fh) < 186 || auth(fi, 186, 80, t) < 80) { printf("A L %d -1 - - - - - - short-file\n", fi); return; }
    eofa = ptr_at(fh + 146, &bl);
    if (memcmp(t, "fCbt", 4) || memcmp(t + 76, "Fcte", 4)) status = "free-chunk-table-tags";
    for (i = 0; i < 3; i++) {
        first[i] = ptr_at(t + 4 + 24 * i, &fb[i]); last[i] = ptr_at(t + 16 + 24 * i, &lb[i]);
        st[i] = walk_list(fi, first[i], fb[i], last[i], lb[i], l[i], sizeof l[i]);
        if (strcmp(st[i], "ok") && !strcmp(status, "ok")) status = st[i];
    }
    printf("A L %d %lld", fi, eofa);
    for (i = 0; i < 3; i++) { printf(" %s ", l[i]); if (lb[i]) printf("-"); else printf("%lld", last[i]); }
    printf(" %s\n", status);
}
static void trace_cb(int op, int fi, unsigned long block, unsigned long off, long long len, const char *data, int err)
{
    int code = op & 0xff, detail = op >> 8;
    switch (code) {
    case ADFI_VT_OPEN:
        if (err == NO_ERROR && fi >= 0 && fi < MAXFI) {
            struct stat sb; const unsigned char *p = (const unsigned char *)(data ? data : "");
            if (vfd[fi] >= 0) close(vfd[fi]);
            vfd[fi] = open(data ? data : "", O_RDONLY); strncpy(vpath[fi], data ? data : "", 599);
            printf("A O %d %lld ", fi, (vfd[fi] >= 0 && !fstat(vfd[fi], &sb)) ? (long long)sb.st_size : -1LL);
            if (!*p) printf("-"); for (; *p; p++) printf("%02x", *p); printf("\n");
            vdirty[fi] = 1;
        }
        break;
    case ADFI_VT_MALLOC:
        if (detail == 0) printf("A M %d %lld\n", fi, len);
        else printf("A m %d %lld %lu %lu %d\n", fi, len, block, off, err);
        if (fi >= 0 && fi < MAXFI) vdirty[fi] = 1;
        break;
    case ADFI_VT_FREE:
        if (detail == 2) printf("A f %d %lu %lu %lld %d\n", fi, block, off, len, err);
        else {
            const struct DISK_POINTER *e = (const struct DISK_POINTER *)data;
            printf("A F %d %lu %lu %lld %d %llu %llu\n", fi, block, off, len, detail, (unsigned long long)e->block, (unsigned long long)e->offset);
        }
        if (fi >= 0 && fi < MAXFI) vdirty[fi] = 1;
        break;
    }
}
static int slot_of(const char *path) { int i; for (i = 0; i < MAXFI; i++) if (vfd[i] >= 0 && !strcmp(vpath[i], path) && ADF_file && i < maximum_files && ADF_file[i].in_use) return i; return -1; }
#endif

static void between_lines(void)
{
#ifdef C02D_HAVE_HOOK
    int i;
    for (i = 0; i < MAXFI; i++) if (vdirty[i] && vfd[i] >= 0) { dump_lists(i); vdirty[i] = 0; }
#endif
    fflush(stdout);
}

static char *c02d_gets(char *buf, int n, FILE *f)
{
    for (;;) {
        int fi, k;
        between_lines();
        if (!(fgets)(buf, n, f)) return NULL;
        if (sscanf(buf, "snap %d %d", &fi, &k) == 2) {
            long long total = -1;
            if (fi >= 0 && fi < MAXF && F[fi].path[0]) {
                char dst[700]; int in = open(F[fi].path, O_RDONLY), out; struct stat sb;
                snprintf(dst, sizeof dst, "%s.snap%d", F[fi].path, k);
                out = open(dst, O_WRONLY | O_CREAT | O_TRUNC, 0644);
                if (in >= 0 && out >= 0 && !fstat(in, &sb)) {
                    long long sz = sb.st_size; unsigned char *b = (unsigned char *)malloc(sz + 4096 + 1);
                    total = pread(in, b, sz, 0);
#ifdef C02D_HAVE_HOOK
                    {   /* a pending write block belongs to the file's current content */
                        ADFI_VERIF_STATE st; int slot = F[fi].open ? slot_of(F[fi].path) : -1;
                        ADFI_verif_cache_state(&st);
                        if (slot >= 0 && st.wr_flush > 0 && st.wr_file == slot && st.wr_block >= 0) {
                            long long b0 = st.wr_block * 4096LL;
                            if (b0 <= total) { memcpy(b + b0, st.wr_buf, 4096); if (b0 + 4096 > total) total = b0 + 4096; }
                        }
                    }
#endif
                    if (total > 0 && write(out, b, total) != total) total = -1;
                    free(b);
                }
                if (in >= 0) close(in); if (out >= 0) close(out);
            }
            printf("A S %d %d %lld ", fi, k, total);
            { const unsigned char *q = (const unsigned char *)((fi >= 0 && fi < MAXF) ? F[fi].path : ""); if (!*q) printf("-"); for (; *q; q++) printf("%02x", *q); printf("\n"); }
            continue;
        }
        if (sscanf(buf, "view %d", &fi) == 1) {
#ifdef C02D_HAVE_HOOK
            int slot = (fi >= 0 && fi < MAXF && F[fi].open) ? slot_of(F[fi].path) : -1, err = NO_ERROR, i;
            if (slot < 0) printf("A V %d - closed\n", fi);
            else {
                struct FILE_HEADER fh; struct FREE_CHUNK_TABLE t; struct DISK_POINTER *p[6];
                ADFI_read_file_header(slot, &fh, &err);
                if (err == NO_ERROR) ADFI_read_free_chunk_table(slot, &t, &err);
                if (err != NO_ERROR) printf("A V %d %d err %d\n", fi, slot, err);
                else {
                    p[0] = &t.small_first_block; p[1] = &t.small_last_block; p[2] = &t.medium_first_block;
                    p[3] = &t.medium_last_block; p[4] = &t.large_first_block; p[5] = &t.large_last_block;
                    printf("A V %d %d %llu", fi, slot, (unsigned long long)(fh.end_of_file.block * 4096ULL + fh.end_of_file.offset));
                    for (i = 0; i < 6; i++) if (p[i]->block == 0 && p[i]->offset == 4096) printf(" -"); else printf(" %llu", (unsigned long long)(p[i]->block * 4096ULL + p[i]->offset));
                    printf("\n");
                }
            }
#else
            printf("A V %d - nohook\n", fi);
#endif
            continue;
        }
        return buf;
    }
}

int main(void)
{
    int i, r;
    for (i = 0; i < MAXFI; i++) vfd[i] = -1;
#ifdef C02D_HAVE_HOOK
    { int probe = ADFI_VT_MALLOC + ADFI_VT_FREE; (void)probe; }     /* does not compile against a library without the C02d op codes */
    ADFI_verif_trace = trace_cb;
    printf("hook 1\n");
#else
    printf("hook 0\n");
#endif
    r = cgio_main();
    between_lines();
    return r;
}
