/* c04_mod.c -- implementation-side driver of property C04 (in modify mode the session view, the file and the edits never
 * diverge).  Reads a line-oriented script on stdin (words separated by blanks; names contain no blanks, commas, colons)
 * and prints one canonical line per command.
 *
 *   ft adf|hdf5 ; compress N ; open w|m|r FILE ; close                    -> "c <status>"
 *   reopen r|m                cg_close + cg_open(FILE, mode)               -> "o <status>"
 *   mk <path> <what> [arg]    create a single-child container at <path>    -> "c <status>"
 *   variant N                 the arguments `mk` passes to the writer of the single child (0 = plain)    -> "c 0"
 *   attach <path>             hang everything the API accepts on the node (DataClass, units, descriptor, user data, array,
 *                             ordinal, grid location, rind, family names)  -> "a <accepted calls>"
 *   full <path>               every scalar / single-child attribute readable at the node, the names of its descriptors,
 *                             user data and arrays, and what the reader of its own kind returns      -> "f <label> ..."
 *   w <path> <parent label> <label> <name> <payload>   create / overwrite the entity <name> of kind <label> under the
 *                             node <path> through the API of that kind; on success the payload is ALSO stored in a
 *                             Descriptor_t child "P" of the new entity (where the kind may hold descriptors), written
 *                             through cg_gopath(<path>/<name>) + cg_descriptor_write                -> "w <status> <index|0>"
 *   u ...                     same arguments; kinds whose writer rewrites an existing array in place (fields, coords)
 *   d <path> <parent label> <name>   cg_gopath(<path>) + cg_delete_node(<name>)                    -> "d <status>"
 *   v <path> <parent label> <label>  the SESSION VIEW of that kind: count through cg_n*, then for i = 1..n the name and
 *                             attributes through cg_*_info / cg_*_read and the "P" descriptor through
 *                             cg_gorel(<label>, i) + cg_descriptor_read     -> "v <n> name:payload,..."
 *                             an entity whose attributes do not encode (payload mod M) is printed name:payload!a=<attr>,
 *                             an entity without readable payload name:?; a child that is a LINK (cg_is_link > 0 at
 *                             cg_gorel(<label>, i)) is printed name:@<file>|<path in file> from cg_link_read and
 *                             nothing of what lies behind it
 *   ln <path> <parent label> <label> <name> <file|-> <target path>   cg_gopath(<path>) + cg_link_write(<name>, <file> or ""
 *                             for a link inside the same file, <target path>)                        -> "l <status>"
 *   raw <path> <parent label> <name> <payload>   a node labelled Blob_t with data of the type / shape its name selects (all ten
 *                             types of the database), created through the cgio handle of the open file (cg_get_cgio) -> "l <status>"
 *                             `v <path> <parent label> Blob_t` lists those nodes through cgio: name:payload when EVERY byte is
 *                             what the payload generates, name:-2 / -4 / -5 for wrong bytes / wrong type or shape / unreadable
 *   arrays (DataArray_t through cg_array_write / cg_array_general_write) under parents whose reader accepts any array carry one
 *   of the seven types of the mid-level library and a 1-D / 2-D shape, both selected by the NAME; every element is verified
 *   p <path>                  the "P" descriptor read at <path> (through a link when the node is one)   -> "p <payload|?>"
 *   mv <from> <to>            rename(2) a file (a regenerated link target replaces the old one)      -> "c <status>"
 * <path> is the path of node names below the root ("/" = the root itself), resolved by cg_gopath, the indices the
 * index-based API needs are taken from cg_where.  Never prints pointers, ids, floats or error texts (C04_DEBUG=1
 * sends the library's error text to stderr). */
#include <stdio.h>
#include <stdlib.h>
#include <string.h>
#include "cgnslib.h"
#include "cgns_io.h"

static int fn = -1;
static int variant = 0;          /* `variant N`: the arguments the single-child writers of `mk` use (0 = the plain ones) */
static char fname[2048];
static char *W[16];
static int NW;

/* ---- the current position */
static int cB, cdepth, cnum[CG_MAX_GOTO_DEPTH];
static char clab[CG_MAX_GOTO_DEPTH][33];
static char cpath[4096];

static void dbg(const char *what, int rc)
{
    if (rc && getenv("C04_DEBUG")) fprintf(stderr, "[%s] -> %d: %s\n", what, rc, cg_get_error());
}

static int split(char *line)
{
    NW = 0;
    for (char *p = strtok(line, " \t\r\n"); p && NW < 16; p = strtok(NULL, " \t\r\n")) W[NW++] = p;
    return NW;
}

/* position at <path>; "/" = no position (the root).  0 = ok */
static int go(const char *path)
{
    int f2, rc;
    char *labs[CG_MAX_GOTO_DEPTH];
    snprintf(cpath, sizeof cpath, "%s", path);
    cB = 0; cdepth = 0;
    if (!strcmp(path, "/")) return 0;
    rc = cg_gopath(fn, path);
    if (rc) { dbg("gopath", rc); return rc; }
    for (int i = 0; i < CG_MAX_GOTO_DEPTH; i++) labs[i] = clab[i];
    rc = cg_where(&f2, &cB, &cdepth, labs, cnum);
    dbg("where", rc);
    return rc;
}
/* index of the innermost level with this label (0 = none) */
static int ix(const char *label)
{
    for (int i = cdepth - 1; i >= 0; i--) if (!strcmp(clab[i], label)) return cnum[i];
    return 0;
}
static const char *plabel(void) { return cdepth ? clab[cdepth - 1] : (cB ? "CGNSBase_t" : "CGNSTree_t"); }

/* the "P" descriptor at the current position: 1 = found */
static int read_P(long *p)
{
    int n = 0, found = 0;
    if (cg_ndescriptors(&n)) return 0;
    for (int i = 1; i <= n; i++) {
        char nm[33]; char *text = NULL;
        if (cg_descriptor_read(i, nm, &text)) continue;
        if (!strcmp(nm, "P") && text) { *p = atol(text); found = 1; }
        if (text) cg_free(text);
    }
    return found;
}
static int write_P(long p)
{
    char t[32];
    snprintf(t, sizeof t, "%ld", p);
    return cg_descriptor_write("P", t);
}

static long zone_nvert(void)
{
    char nm[33]; cgsize_t size[9];
    if (cg_zone_read(fn, cB, ix("Zone_t"), nm, size)) return 1;
    return (long)size[0];
}
static long pzone_size(void)
{
    char nm[33]; cgsize_t size[3];
    if (cg_particle_read(fn, cB, ix("ParticleZone_t"), nm, size)) return 1;
    return (long)size[0];
}

/* ------------------------------------------------------------------------------------------------ the kinds
 * writer: 0 = ok, *idx = 1-based index handed back by the API (0 = the API has none: resolved by a name search)
 * reader: name of entity i; *attr / *mod: the attributes encode payload mod *mod (*mod = 0: the whole payload,
 *         *mod = -1: nothing) */
typedef struct kind {
    const char *parent, *label;
    int (*wr)(const char *name, long p, int *idx);
    int (*cnt)(int *n);
    int (*rd)(int i, char *name, long *attr, long *mod);
    int descr;           /* the entity can hold the "P" descriptor */
    int (*up)(const char *name, long p, int *idx);      /* command `u`: the writer that rewrites an existing entity IN PLACE
                                                           (NULL: the kind's only writer does that) */
} kind_t;

#define BCT(p) ((CGNS_ENUMT(BCType_t))(2 + (p) % 20))
#define BCT_INV(t) ((long)(t) - 2)

/* -- children of the root */
static int w_base(const char *n, long p, int *i) { return cg_base_write(fn, n, 3, 3, i); }
static int n_base(int *n) { return cg_nbases(fn, n); }
static int r_base(int i, char *nm, long *a, long *m) { int c, d; *m = -1; return cg_base_read(fn, i, nm, &c, &d); }
/* -- children of CGNSBase_t */
static int w_zone(const char *n, long p, int *i) { cgsize_t s[3] = {2 + p % 97, 1, 0}; return cg_zone_write(fn, cB, n, s, CGNS_ENUMV(Unstructured), i); }
static int n_zone(int *n) { return cg_nzones(fn, cB, n); }
static int r_zone(int i, char *nm, long *a, long *m) { cgsize_t s[9]; int rc = cg_zone_read(fn, cB, i, nm, s); *a = (long)s[0] - 2; *m = 97; return rc; }
static int w_pzone(const char *n, long p, int *i) { return cg_particle_write(fn, cB, n, (cgsize_t)(1 + p % 97), i); }
static int n_pzone(int *n) { return cg_nparticle_zones(fn, cB, n); }
static int r_pzone(int i, char *nm, long *a, long *m) { cgsize_t s[3]; int rc = cg_particle_read(fn, cB, i, nm, s); *a = (long)s[0] - 1; *m = 97; return rc; }
static int w_family(const char *n, long p, int *i) { return cg_family_write(fn, cB, n, i); }
static int n_family(int *n) { return cg_nfamilies(fn, cB, n); }
static int r_family(int i, char *nm, long *a, long *m) { int b, g; *m = -1; return cg_family_read(fn, cB, i, nm, &b, &g); }
/* -- children of Zone_t */
#define Z ix("Zone_t")
static int w_grid(const char *n, long p, int *i) { return cg_grid_write(fn, cB, Z, n, i); }
static int n_grid(int *n) { return cg_ngrids(fn, cB, Z, n); }
static int r_grid(int i, char *nm, long *a, long *m) { *m = -1; return cg_grid_read(fn, cB, Z, i, nm); }
static int w_section(const char *n, long p, int *i) { cgsize_t conn[2] = {1, 2}; return cg_section_write(fn, cB, Z, n, CGNS_ENUMV(BAR_2), 1, 1, (int)(p % 2), conn, i); }
static int n_section(int *n) { return cg_nsections(fn, cB, Z, n); }
static int r_section(int i, char *nm, long *a, long *m) { CGNS_ENUMT(ElementType_t) t; cgsize_t s, e; int nb, pf; int rc = cg_section_read(fn, cB, Z, i, nm, &t, &s, &e, &nb, &pf); *a = nb; *m = 2; return rc; }
static int w_sol(const char *n, long p, int *i) { return cg_sol_write(fn, cB, Z, n, p % 2 ? CGNS_ENUMV(CellCenter) : CGNS_ENUMV(Vertex), i); }
static int n_sol(int *n) { return cg_nsols(fn, cB, Z, n); }
static int r_sol(int i, char *nm, long *a, long *m) { CGNS_ENUMT(GridLocation_t) l; int rc = cg_sol_info(fn, cB, Z, i, nm, &l); *a = l == CGNS_ENUMV(CellCenter); *m = 2; return rc; }
static int w_discrete(const char *n, long p, int *i) { return cg_discrete_write(fn, cB, Z, n, i); }
static int n_discrete(int *n) { return cg_ndiscrete(fn, cB, Z, n); }
static int r_discrete(int i, char *nm, long *a, long *m) { *m = -1; return cg_discrete_read(fn, cB, Z, i, nm); }
static int w_rigid(const char *n, long p, int *i)
{
    /* a RigidGridMotion_t without OriginLocation cannot be read back ("defined incorrectly"): write the array too */
    double d[6] = {0, 0, 0, 1, 1, 1}; cgsize_t dims[2] = {3, 2};
    int rc = cg_rigid_motion_write(fn, cB, Z, n, p % 2 ? CGNS_ENUMV(VariableRate) : CGNS_ENUMV(ConstantRate), i);
    if (rc) return rc;
    if (cg_goto(fn, cB, "Zone_t", Z, "RigidGridMotion_t", *i, "end")) return 1;
    return cg_array_write("OriginLocation", CGNS_ENUMV(RealDouble), 2, dims, d);
}
static int n_rigid(int *n) { return cg_n_rigid_motions(fn, cB, Z, n); }
static int r_rigid(int i, char *nm, long *a, long *m) { CGNS_ENUMT(RigidGridMotionType_t) t; int rc = cg_rigid_motion_read(fn, cB, Z, i, nm, &t); *a = t == CGNS_ENUMV(VariableRate); *m = 2; return rc; }
static int w_arb(const char *n, long p, int *i) { return cg_arbitrary_motion_write(fn, cB, Z, n, p % 2 ? CGNS_ENUMV(DeformingGrid) : CGNS_ENUMV(NonDeformingGrid), i); }
static int n_arb(int *n) { return cg_n_arbitrary_motions(fn, cB, Z, n); }
static int r_arb(int i, char *nm, long *a, long *m) { CGNS_ENUMT(ArbitraryGridMotionType_t) t; int rc = cg_arbitrary_motion_read(fn, cB, Z, i, nm, &t); *a = t == CGNS_ENUMV(DeformingGrid); *m = 2; return rc; }
static int w_zconn(const char *n, long p, int *i) { return cg_zconn_write(fn, cB, Z, n, i); }
static int n_zconn(int *n) { return cg_nzconns(fn, cB, Z, n); }
static char zc_sel[4096];
/* (cg_zconn_read makes container i the current one: whatever the harness selected is forgotten) */
static int r_zconn(int i, char *nm, long *a, long *m) { *m = -1; zc_sel[0] = 0; return cg_zconn_read(fn, cB, Z, i, nm); }
static int w_subreg(const char *n, long p, int *i) { return cg_subreg_bcname_write(fn, cB, Z, n, 1 + (int)(p % 2), "bcname", i); }
static int n_subreg(int *n) { return cg_nsubregs(fn, cB, Z, n); }
static int r_subreg(int i, char *nm, long *a, long *m)
{
    int dim, bl, gl; CGNS_ENUMT(GridLocation_t) loc; CGNS_ENUMT(PointSetType_t) pt; cgsize_t np;
    int rc = cg_subreg_info(fn, cB, Z, i, nm, &dim, &loc, &pt, &np, &bl, &gl);
    *a = dim - 1; *m = 2; return rc;
}
/* -- children of ZoneBC_t (the position may not exist yet: the zone is what the API needs) */
static int w_boco(const char *n, long p, int *i) { cgsize_t pnt[1] = {1}; return cg_boco_write(fn, cB, Z, n, BCT(p), CGNS_ENUMV(PointList), 1, pnt, i); }
static int n_boco(int *n) { return cg_nbocos(fn, cB, Z, n); }
static int r_boco(int i, char *nm, long *a, long *m)
{
    CGNS_ENUMT(BCType_t) t; CGNS_ENUMT(PointSetType_t) pt; cgsize_t np, nls; int ni[3], nds; CGNS_ENUMT(DataType_t) dt;
    int rc = cg_boco_info(fn, cB, Z, i, nm, &t, &pt, &np, ni, &nls, &dt, &nds);
    *a = BCT_INV(t); *m = 20; return rc;
}
/* -- children of BC_t */
static int w_dataset(const char *n, long p, int *i) { return cg_dataset_write(fn, cB, Z, ix("BC_t"), n, BCT(p), i); }
static int n_dataset(int *n)
{
    char nm[33]; CGNS_ENUMT(BCType_t) t; CGNS_ENUMT(PointSetType_t) pt; cgsize_t np, nls; int ni[3]; CGNS_ENUMT(DataType_t) dt;
    return cg_boco_info(fn, cB, Z, ix("BC_t"), nm, &t, &pt, &np, ni, &nls, &dt, n);
}
static int r_dataset(int i, char *nm, long *a, long *m) { CGNS_ENUMT(BCType_t) t; int d, n; int rc = cg_dataset_read(fn, cB, Z, ix("BC_t"), i, nm, &t, &d, &n); *a = BCT_INV(t); *m = 20; return rc; }
/* -- children of ZoneGridConnectivity_t: the API acts on the ACTIVE container */
/* `zcmode set` (default): cg_zconn_set before every call.  `zcmode keep`: the harness remembers WHICH container (its path) it
   selected last and selects again only when another one is wanted -- the library must keep that container current whatever
   happens to its siblings in between.  Forgotten when a container is written (cg_zconn_write selects the new one), when the
   remembered one or something above it is written or deleted, and at every open / close. */
static int zc_keep = 0;
static void zc_forget_under(const char *path, const char *name)
{
    char cp[4096]; size_t n;
    if (!strcmp(path, "/")) snprintf(cp, sizeof cp, "/%s", name); else snprintf(cp, sizeof cp, "%s/%s", path, name);
    n = strlen(cp);
    if (!strncmp(zc_sel, cp, n) && (zc_sel[n] == 0 || zc_sel[n] == '/')) zc_sel[0] = 0;
}
static int zc(void)
{
    char want[4096]; int lvl = -1, rc;
    for (int i = cdepth - 1; i >= 0; i--) if (!strcmp(clab[i], "ZoneGridConnectivity_t")) { lvl = i; break; }
    snprintf(want, sizeof want, "%s", cpath);
    if (lvl >= 0) { int seen = 0; for (char *q = want + 1; *q; q++) if (*q == '/' && ++seen == lvl + 2) { *q = 0; break; } }
    if (zc_keep && lvl >= 0 && !strcmp(want, zc_sel)) return 0;
    rc = cg_zconn_set(fn, cB, Z, ix("ZoneGridConnectivity_t"));
    if (!rc && lvl >= 0) snprintf(zc_sel, sizeof zc_sel, "%s", want); else zc_sel[0] = 0;
    return rc;
}
static int w_conn(const char *n, long p, int *i)
{
    cgsize_t pnt[1] = {1}, size[9]; char zn[33];
    if (zc()) return 1;
    if (cg_zone_read(fn, cB, Z, zn, size)) return 1;      /* cg_conn_info looks the donor zone up: the zone itself */
    return cg_conn_write_short(fn, cB, Z, n, p % 2 ? CGNS_ENUMV(CellCenter) : CGNS_ENUMV(Vertex), CGNS_ENUMV(Overset), CGNS_ENUMV(PointList), 1, pnt, zn, i);
}
static int n_conn(int *n) { if (zc()) return 1; return cg_nconns(fn, cB, Z, n); }
static int r_conn(int i, char *nm, long *a, long *m)
{
    CGNS_ENUMT(GridLocation_t) loc; CGNS_ENUMT(GridConnectivityType_t) t; CGNS_ENUMT(PointSetType_t) pt, dpt;
    cgsize_t np, nd; char donor[33]; CGNS_ENUMT(ZoneType_t) zt; CGNS_ENUMT(DataType_t) ddt;
    if (zc()) return 1;
    int rc = cg_conn_info(fn, cB, Z, i, nm, &loc, &t, &pt, &np, donor, &zt, &dpt, &ddt, &nd);
    *a = loc == CGNS_ENUMV(CellCenter); *m = 2; return rc;
}
static int w_1to1(const char *n, long p, int *i)
{
    cgsize_t r[2] = {1, 2}, dr[2] = {1, 2}; int tr[1] = {1}; char donor[33];
    if (zc()) return 1;
    snprintf(donor, sizeof donor, "D%ld", p);
    return cg_1to1_write(fn, cB, Z, n, donor, r, dr, tr, i);
}
static int n_1to1(int *n) { if (zc()) return 1; return cg_n1to1(fn, cB, Z, n); }
static int r_1to1(int i, char *nm, long *a, long *m)
{
    cgsize_t r[6], dr[6]; int tr[3]; char donor[33];
    if (zc()) return 1;
    int rc = cg_1to1_read(fn, cB, Z, i, nm, donor, r, dr, tr);
    *a = rc ? -1 : atol(donor + 1); *m = 0; return rc;
}
static int w_hole(const char *n, long p, int *i)
{
    cgsize_t pnt[1] = {1};
    if (zc()) return 1;
    return cg_hole_write(fn, cB, Z, n, p % 2 ? CGNS_ENUMV(CellCenter) : CGNS_ENUMV(Vertex), CGNS_ENUMV(PointList), 1, 1, pnt, i);
}
static int n_hole(int *n) { if (zc()) return 1; return cg_nholes(fn, cB, Z, n); }
static int r_hole(int i, char *nm, long *a, long *m)
{
    CGNS_ENUMT(GridLocation_t) loc; CGNS_ENUMT(PointSetType_t) pt; int ns; cgsize_t np;
    if (zc()) return 1;
    int rc = cg_hole_info(fn, cB, Z, i, nm, &loc, &pt, &ns, &np);
    *a = loc == CGNS_ENUMV(CellCenter); *m = 2; return rc;
}
/* -- arrays written through the index API: an existing array is rewritten in place */
static int w_field(const char *n, long p, int *i)
{
    long nv = zone_nvert(); CGNS_ENUMT(GridLocation_t) loc; char snm[33]; int rc;
    int *d;
    if (cg_sol_info(fn, cB, Z, ix("FlowSolution_t"), snm, &loc)) return 1;
    if (loc != CGNS_ENUMV(Vertex)) nv = 1;          /* cell centred: the zone has one cell */
    d = malloc(sizeof(int) * (size_t)nv);
    for (long k = 0; k < nv; k++) d[k] = (int)p;
    rc = cg_field_write(fn, cB, Z, ix("FlowSolution_t"), CGNS_ENUMV(Integer), n, d, i);
    free(d); return rc;
}
static int n_field(int *n) { return cg_nfields(fn, cB, Z, ix("FlowSolution_t"), n); }
static int r_field(int i, char *nm, long *a, long *m)
{
    CGNS_ENUMT(DataType_t) t; cgsize_t lo = 1, hi = 1; int v[1] = {-1};
    int rc = cg_field_info(fn, cB, Z, ix("FlowSolution_t"), i, &t, nm);
    if (rc) return rc;
    rc = cg_field_read(fn, cB, Z, ix("FlowSolution_t"), nm, CGNS_ENUMV(Integer), &lo, &hi, v);
    *a = v[0]; *m = 0; return rc;
}
static int w_coord(const char *n, long p, int *i)
{
    long nv = zone_nvert(); int rc; double *d = malloc(sizeof(double) * (size_t)nv);
    for (long k = 0; k < nv; k++) d[k] = (double)p;
    rc = cg_coord_write(fn, cB, Z, CGNS_ENUMV(RealDouble), n, d, i);
    free(d); return rc;
}
static int n_coord(int *n) { return cg_ncoords(fn, cB, Z, n); }
static int r_coord(int i, char *nm, long *a, long *m)
{
    CGNS_ENUMT(DataType_t) t; cgsize_t lo = 1, hi = 1; double v[1] = {-1};
    int rc = cg_coord_info(fn, cB, Z, i, &t, nm);
    if (rc) return rc;
    rc = cg_coord_read(fn, cB, Z, nm, CGNS_ENUMV(RealDouble), &lo, &hi, v);
    *a = (long)v[0]; *m = 0; return rc;
}
/* -- children of ParticleZone_t */
#define PZ ix("ParticleZone_t")
static int w_pcoor(const char *n, long p, int *i) { return cg_particle_coord_node_write(fn, cB, PZ, n, i); }
static int n_pcoor(int *n) { return cg_particle_ncoord_nodes(fn, cB, PZ, n); }
static int r_pcoor(int i, char *nm, long *a, long *m) { *m = -1; return cg_particle_coord_node_read(fn, cB, PZ, i, nm); }
static int w_psol(const char *n, long p, int *i) { return cg_particle_sol_write(fn, cB, PZ, n, i); }
static int n_psol(int *n) { return cg_particle_nsols(fn, cB, PZ, n); }
static int r_psol(int i, char *nm, long *a, long *m) { *m = -1; return cg_particle_sol_info(fn, cB, PZ, i, nm); }
static int w_pfield(const char *n, long p, int *i)
{
    long nv = pzone_size(); int rc; int *d = malloc(sizeof(int) * (size_t)nv);
    for (long k = 0; k < nv; k++) d[k] = (int)p;
    rc = cg_particle_field_write(fn, cB, PZ, ix("ParticleSolution_t"), CGNS_ENUMV(Integer), n, d, i);
    free(d); return rc;
}
static int n_pfield(int *n) { return cg_particle_nfields(fn, cB, PZ, ix("ParticleSolution_t"), n); }
static int r_pfield(int i, char *nm, long *a, long *m)
{
    CGNS_ENUMT(DataType_t) t; cgsize_t lo = 1, hi = 1; int v[1] = {-1};
    int rc = cg_particle_field_info(fn, cB, PZ, ix("ParticleSolution_t"), i, &t, nm);
    if (rc) return rc;
    rc = cg_particle_field_read(fn, cB, PZ, ix("ParticleSolution_t"), nm, CGNS_ENUMV(Integer), &lo, &hi, v);
    *a = v[0]; *m = 0; return rc;
}
/* -- children of a top-level Family_t through the index API */
#define FA ix("Family_t")
static int w_fambc(const char *n, long p, int *i) { return cg_fambc_write(fn, cB, FA, n, BCT(p), i); }
static int n_fambc(int *n) { char nm[33]; int g; return cg_family_read(fn, cB, FA, nm, n, &g); }
static int r_fambc(int i, char *nm, long *a, long *m) { CGNS_ENUMT(BCType_t) t; int rc = cg_fambc_read(fn, cB, FA, i, nm, &t); *a = BCT_INV(t); *m = 0; return rc; }
static int w_geo(const char *n, long p, int *i) { char f[40]; snprintf(f, sizeof f, "file%ld", p); return cg_geo_write(fn, cB, FA, n, f, "cadsys", i); }
static int n_geo(int *n) { char nm[33]; int b; return cg_family_read(fn, cB, FA, nm, &b, n); }
static int r_geo(int i, char *nm, long *a, long *m)
{
    char *file = NULL, cad[33]; int np;
    int rc = cg_geo_read(fn, cB, FA, i, nm, &file, cad, &np);
    *a = (rc || !file) ? -1 : atol(file + 4); *m = 0;
    if (file) cg_free(file);
    return rc;
}
static int w_part(const char *n, long p, int *i) { return cg_part_write(fn, cB, FA, ix("GeometryReference_t"), n, i); }
static int n_part(int *n) { char nm[33], cad[33]; char *file = NULL; int rc = cg_geo_read(fn, cB, FA, ix("GeometryReference_t"), nm, &file, cad, n); if (file) cg_free(file); return rc; }
static int r_part(int i, char *nm, long *a, long *m) { *a = 0; *m = 0; return cg_part_read(fn, cB, FA, ix("GeometryReference_t"), i, nm); }
/* -- node-context kinds: they act at the current position */
/* the text of a descriptor: the payload, ':' and 1 + p % 40 letters that depend on it (a string the copy must carry whole) */
static void descr_text(char *t, size_t n, long p)
{
    int o = snprintf(t, n, "%ld:", p), len = 1 + (int)(p % 40);
    for (int k = 0; k < len && (size_t)o + 1 < n; k++) t[o++] = (char)('a' + (p + 3 * k) % 26);
    t[o] = 0;
}
static int w_descr(const char *n, long p, int *i) { char t[96]; *i = 0; descr_text(t, sizeof t, p); return cg_descriptor_write(n, t); }
static int n_descr(int *n) { return cg_ndescriptors(n); }
static int r_descr(int i, char *nm, long *a, long *m)
{
    char *text = NULL, want[96]; int rc = cg_descriptor_read(i, nm, &text);
    *a = (rc || !text) ? -1 : atol(text); *m = 0;
    if (!rc && text && *a >= 0) { descr_text(want, sizeof want, *a); if (strcmp(want, text)) *a = -3; }   /* every character */
    if (text) cg_free(text);
    return rc;
}
static int w_user(const char *n, long p, int *i) { *i = 0; return cg_user_data_write(n); }
static int n_user(int *n) { return cg_nuser_data(n); }
static int r_user(int i, char *nm, long *a, long *m) { *m = -1; return cg_user_data_read(i, nm); }
/* arrays under DiscreteData_t / ArbitraryGridMotion_t must have the zone's vertex count or the file cannot be read back */
static long array_len(void)
{
    const char *pl = plabel();
    if (!strcmp(pl, "DiscreteData_t") || !strcmp(pl, "ArbitraryGridMotion_t")) return zone_nvert();
    return 1;
}
/* ---- arrays of every data type.  Under the parents whose reader accepts any array, the TYPE and the SHAPE of an array follow
 * from its NAME (so an in-place rewrite keeps them): "Ty<k>..." selects type k, any other name a hash.  Element k of a numeric
 * array holds payload + 7 k (complex: imaginary part -(payload + k)); a byte array (C1, B1) holds the six decimal digits of the
 * payload, lowest first, then letters that depend on payload and position.  The reader decodes the payload from element 0 and
 * verifies EVERY element (-2 otherwise). */
static const char *TYPES[10] = {"I4", "I8", "R4", "R8", "X4", "X8", "C1", "U4", "U8", "B1"};
static int free_parent(const char *pl)
{
    /* (ReferenceState_t, BCData_t and the model nodes are read back only with scalar arrays; motion / discrete data only with
       real arrays of the zone's size: those keep one integer / real per element) */
    static const char *F[] = {"UserDefinedData_t", "IntegralData_t", "ConvergenceHistory_t", "ZoneSubRegion_t", "ZoneIterativeData_t",
        "BaseIterativeData_t", "ParticleIterativeData_t", NULL};
    for (int k = 0; F[k]; k++) if (!strcmp(F[k], pl)) return 1;
    return 0;
}
static unsigned name_hash(const char *n) { unsigned h = 5381; for (; *n; n++) h = h * 33u + (unsigned char)*n; return h; }
static int type_of_name(const char *n, int ntypes)
{
    if (n[0] == 'T' && n[1] == 'y' && n[2] >= '0' && n[2] <= '9') return (n[2] - '0') % ntypes;
    return (int)(name_hash(n) % (unsigned)ntypes);
}
/* shape: rank 1 or 2, 8..12 elements for byte types, 3..6 otherwise */
static int shape_of_name(const char *n, int ty, cgsize_t *dims)
{
    unsigned h = name_hash(n) / 16u;
    int bytes = (ty == 6 || ty == 9);
    if (h % 2) { dims[0] = bytes ? 4 : 2; dims[1] = bytes ? 2 + (cgsize_t)(h / 2 % 2) : 2 + (cgsize_t)(h / 2 % 2); return 2; }
    dims[0] = bytes ? 8 + (cgsize_t)(h / 2 % 3) : 3 + (cgsize_t)(h / 2 % 3);
    return 1;
}
static size_t type_size(int ty) { static const size_t S[10] = {4, 8, 4, 8, 8, 16, 1, 4, 8, 1}; return S[ty]; }
static void fill_typed(int ty, long p, long n, void *buf)
{
    for (long k = 0; k < n; k++) {
        long v = p + 7 * k;
        switch (ty) {
        case 0: ((int *)buf)[k] = (int)v; break;
        case 1: ((cglong_t *)buf)[k] = (cglong_t)v; break;
        case 2: ((float *)buf)[k] = (float)v; break;
        case 3: ((double *)buf)[k] = (double)v; break;
        case 4: ((float *)buf)[2 * k] = (float)v; ((float *)buf)[2 * k + 1] = -(float)(p + k); break;
        case 5: ((double *)buf)[2 * k] = (double)v; ((double *)buf)[2 * k + 1] = -(double)(p + k); break;
        case 7: ((unsigned *)buf)[k] = (unsigned)v; break;
        case 8: ((cgulong_t *)buf)[k] = (cgulong_t)v; break;
        default: {
            long d = p; for (long j = 0; j < k && j < 6; j++) d /= 10;
            ((char *)buf)[k] = k < 6 ? (char)('0' + d % 10) : (char)('a' + (p + 5 * k) % 26);
        } }
    }
}
/* -> the payload, or -2 when some element is not what fill_typed(payload) puts there */
static long check_typed(int ty, long n, const void *buf)
{
    long p;
    switch (ty) {
    case 0: p = ((const int *)buf)[0]; break;
    case 1: p = (long)((const cglong_t *)buf)[0]; break;
    case 2: p = (long)((const float *)buf)[0]; break;
    case 3: p = (long)((const double *)buf)[0]; break;
    case 4: p = (long)((const float *)buf)[0]; break;
    case 5: p = (long)((const double *)buf)[0]; break;
    case 7: p = (long)((const unsigned *)buf)[0]; break;
    case 8: p = (long)((const cgulong_t *)buf)[0]; break;
    default: {
        long m = 1; p = 0;
        for (long k = 0; k < 6 && k < n; k++, m *= 10) { int c = ((const char *)buf)[k]; if (c < '0' || c > '9') return -2; p += (c - '0') * m; }
    } }
    if (p < 0 || p > 1000000) return -2;
    void *want = calloc((size_t)n, type_size(ty));
    fill_typed(ty, p, n, want);
    int same = !memcmp(want, buf, (size_t)n * type_size(ty));
    free(want);
    return same ? p : -2;
}
static CGNS_ENUMT(DataType_t) mll_type(int ty)
{
    static const CGNS_ENUMT(DataType_t) T[7] = {CGNS_ENUMV(Integer), CGNS_ENUMV(LongInteger), CGNS_ENUMV(RealSingle), CGNS_ENUMV(RealDouble),
                                                CGNS_ENUMV(ComplexSingle), CGNS_ENUMV(ComplexDouble), CGNS_ENUMV(Character)};
    return T[ty];
}
static int typed_array_write(const char *n, long p, int inplace)
{
    cgsize_t dims[2], lo[2] = {1, 1}; int ty = type_of_name(n, 7), nd = shape_of_name(n, ty, dims), rc;
    long cnt = (long)dims[0] * (nd == 2 ? (long)dims[1] : 1);
    void *buf = calloc((size_t)cnt, type_size(ty));
    fill_typed(ty, p, cnt, buf);
    if (inplace) rc = cg_array_general_write(n, mll_type(ty), nd, dims, lo, dims, mll_type(ty), nd, dims, lo, dims, buf);
    else rc = cg_array_write(n, mll_type(ty), nd, dims, buf);
    free(buf);
    return rc;
}

static int w_array(const char *n, long p, int *i)
{
    if (free_parent(plabel())) { *i = 0; return typed_array_write(n, p, 0); }
    long len = array_len(); cgsize_t dim = (cgsize_t)len; int rc;
    *i = 0;
    if (!strcmp(plabel(), "ArbitraryGridMotion_t")) {          /* only real arrays can be read back there */
        double *d = malloc(sizeof(double) * (size_t)len);
        for (long k = 0; k < len; k++) d[k] = (double)p;
        rc = cg_array_write(n, CGNS_ENUMV(RealDouble), 1, &dim, d);
        free(d); return rc;
    }
    int *v = malloc(sizeof(int) * (size_t)len);
    for (long k = 0; k < len; k++) v[k] = (int)p;
    rc = cg_array_write(n, CGNS_ENUMV(Integer), 1, &dim, v);
    free(v); return rc;
}
/* the same array through cg_array_general_write (full range, same rank / dimensions / type): an existing DataArray_t node of
   that name is rewritten IN PLACE (cgi_array_general_write: "overwrite a DataArray_t node of same name, size and data-type") */
static int u_array(const char *n, long p, int *i)
{
    long len = array_len(); cgsize_t dim = (cgsize_t)len, lo = 1, hi = (cgsize_t)len; int rc;
    *i = 0;
    if (free_parent(plabel())) return typed_array_write(n, p, 1);
    if (!strcmp(plabel(), "ArbitraryGridMotion_t")) {
        double *d = malloc(sizeof(double) * (size_t)len);
        for (long k = 0; k < len; k++) d[k] = (double)p;
        rc = cg_array_general_write(n, CGNS_ENUMV(RealDouble), 1, &dim, &lo, &hi, CGNS_ENUMV(RealDouble), 1, &dim, &lo, &hi, d);
        free(d); return rc;
    }
    int *v = malloc(sizeof(int) * (size_t)len);
    for (long k = 0; k < len; k++) v[k] = (int)p;
    rc = cg_array_general_write(n, CGNS_ENUMV(Integer), 1, &dim, &lo, &hi, CGNS_ENUMV(Integer), 1, &dim, &lo, &hi, v);
    free(v); return rc;
}
static int n_array(int *n) { return cg_narrays(n); }
static int r_array(int i, char *nm, long *a, long *m)
{
    CGNS_ENUMT(DataType_t) t; int nd; cgsize_t dims[12]; int v[1] = {-1};
    int rc = cg_array_info(i, nm, &t, &nd, dims);
    *m = 0; *a = -1;
    if (rc) return rc;
    if (free_parent(plabel())) {
        cgsize_t want[2]; int ty = type_of_name(nm, 7), wnd = shape_of_name(nm, ty, want);
        if (t != mll_type(ty) || nd != wnd || dims[0] != want[0] || (nd == 2 && dims[1] != want[1])) { *a = -4; return 0; }   /* type / shape */
        long cnt = (long)dims[0] * (nd == 2 ? (long)dims[1] : 1);
        void *buf = calloc((size_t)cnt + 1, type_size(ty));
        rc = cg_array_read(i, buf);
        if (!rc) *a = check_typed(ty, cnt, buf);
        free(buf);
        return rc;
    }
    if (t == CGNS_ENUMV(Integer) && nd == 1 && dims[0] >= 1 && dims[0] < 100000) {
        int *buf = malloc(sizeof(int) * (size_t)dims[0]);
        rc = cg_array_read(i, buf); *a = buf[0]; v[0] = buf[0];
        for (cgsize_t k = 1; k < dims[0]; k++) if (buf[k] != buf[0]) *a = -2;      /* every element holds the payload */
        free(buf);
    } else if (t == CGNS_ENUMV(RealDouble) && nd == 1 && dims[0] >= 1 && dims[0] < 100000) {
        double *buf = malloc(sizeof(double) * (size_t)dims[0]);
        rc = cg_array_read(i, buf); *a = (long)buf[0];
        for (cgsize_t k = 1; k < dims[0]; k++) if (buf[k] != buf[0]) *a = -2;
        free(buf);
    }
    return rc;
}
static int w_integral(const char *n, long p, int *i) { *i = 0; return cg_integral_write(n); }
/* cg_nintegrals / cg_nmultifam have no arm for some parents the writers and readers accept (ParticleZone_t): count by
   reading until the reader refuses */
static int n_integral(int *n)
{
    char nm[33];
    if (!cg_nintegrals(n)) return 0;
    for (*n = 0; *n < 500 && !cg_integral_read(*n + 1, nm); (*n)++) ;
    return 0;
}
static int r_integral(int i, char *nm, long *a, long *m) { *m = -1; return cg_integral_read(i, nm); }
static int w_multifam(const char *n, long p, int *i) { char f[40]; *i = 0; snprintf(f, sizeof f, "F%ld", p); return cg_multifam_write(n, f); }
static int n_multifam(int *n)
{
    char nm[33], f[CG_MAX_GOTO_DEPTH * 33 + 1];
    if (!cg_nmultifam(n)) return 0;
    for (*n = 0; *n < 500 && !cg_multifam_read(*n + 1, nm, f); (*n)++) ;
    return 0;
}
static int r_multifam(int i, char *nm, long *a, long *m) { char f[CG_MAX_GOTO_DEPTH * 33 + 1]; int rc = cg_multifam_read(i, nm, f); *a = rc ? -1 : atol(f + 1); *m = 0; return rc; }
static int w_famname(const char *n, long p, int *i) { char f[40]; *i = 0; snprintf(f, sizeof f, "F%ld", p); return cg_node_family_name_write(n, f); }
static int n_famname(int *n) { return cg_node_nfamily_names(n); }
static int r_famname(int i, char *nm, long *a, long *m) { char f[CG_MAX_GOTO_DEPTH * 33 + 1]; int rc = cg_node_family_name_read(i, nm, f); *a = rc ? -1 : atol(f + 1); *m = 0; return rc; }
static int w_nfamily(const char *n, long p, int *i) { return cg_node_family_write(n, i); }
static int n_nfamily(int *n) { return cg_node_nfamilies(n); }
static int r_nfamily(int i, char *nm, long *a, long *m) { int b, g; *m = -1; return cg_node_family_read(i, nm, &b, &g); }
static int w_fbcds(const char *n, long p, int *i) { *i = 0; return cg_bcdataset_write(n, BCT(p), CGNS_ENUMV(Dirichlet)); }
static int n_fbcds(int *n) { return cg_bcdataset_info(n); }
/* cg_bcdataset_write on an existing name keeps the node and its BCType and re-creates only the BCData_t child: the
   type does not follow the payload */
static int r_fbcds(int i, char *nm, long *a, long *m) { CGNS_ENUMT(BCType_t) t; int d, n; int rc = cg_bcdataset_read(i, nm, &t, &d, &n); *a = BCT_INV(t); *m = -1; return rc; }

static const kind_t KINDS[] = {
    {"CGNSTree_t", "CGNSBase_t", w_base, n_base, r_base, 1},
    {"CGNSBase_t", "Zone_t", w_zone, n_zone, r_zone, 1},
    {"CGNSBase_t", "ParticleZone_t", w_pzone, n_pzone, r_pzone, 1},
    {"CGNSBase_t", "Family_t", w_family, n_family, r_family, 1},
    {"Zone_t", "GridCoordinates_t", w_grid, n_grid, r_grid, 1},
    {"Zone_t", "Elements_t", w_section, n_section, r_section, 1},
    {"Zone_t", "FlowSolution_t", w_sol, n_sol, r_sol, 1},
    {"Zone_t", "DiscreteData_t", w_discrete, n_discrete, r_discrete, 1},
    {"Zone_t", "RigidGridMotion_t", w_rigid, n_rigid, r_rigid, 1},
    {"Zone_t", "ArbitraryGridMotion_t", w_arb, n_arb, r_arb, 1},
    {"Zone_t", "ZoneGridConnectivity_t", w_zconn, n_zconn, r_zconn, 1},
    {"Zone_t", "ZoneSubRegion_t", w_subreg, n_subreg, r_subreg, 1},
    {"ZoneBC_t", "BC_t", w_boco, n_boco, r_boco, 1},
    {"BC_t", "BCDataSet_t", w_dataset, n_dataset, r_dataset, 1},
    {"ZoneGridConnectivity_t", "GridConnectivity_t", w_conn, n_conn, r_conn, 1},
    {"ZoneGridConnectivity_t", "GridConnectivity1to1_t", w_1to1, n_1to1, r_1to1, 1},
    {"ZoneGridConnectivity_t", "OversetHoles_t", w_hole, n_hole, r_hole, 1},
    {"FlowSolution_t", "DataArray_t", w_field, n_field, r_field, 1},
    {"GridCoordinates_t", "DataArray_t", w_coord, n_coord, r_coord, 1},
    {"ParticleZone_t", "ParticleCoordinates_t", w_pcoor, n_pcoor, r_pcoor, 1},
    {"ParticleZone_t", "ParticleSolution_t", w_psol, n_psol, r_psol, 1},
    {"ParticleSolution_t", "DataArray_t", w_pfield, n_pfield, r_pfield, 1},
    {"Family_t", "FamilyBC_t", w_fambc, n_fambc, r_fambc, 0},
    {"Family_t", "GeometryReference_t", w_geo, n_geo, r_geo, 1},
    {"GeometryReference_t", "GeometryEntity_t", w_part, n_part, r_part, 0},
    {"Family_t", "FamilyName_t", w_famname, n_famname, r_famname, 0},
    {"Family_t", "Family_t", w_nfamily, n_nfamily, r_nfamily, 1},
    {"FamilyBC_t", "FamilyBCDataSet_t", w_fbcds, n_fbcds, r_fbcds, 1},
    /* generic: any parent */
    {"*", "Descriptor_t", w_descr, n_descr, r_descr, 0},
    {"*", "UserDefinedData_t", w_user, n_user, r_user, 1},
    {"*", "DataArray_t", w_array, n_array, r_array, 1, u_array},
    {"*", "IntegralData_t", w_integral, n_integral, r_integral, 1},
    {"*", "AdditionalFamilyName_t", w_multifam, n_multifam, r_multifam, 0},
    {NULL, NULL, NULL, NULL, NULL, 0}
};

/* children the harness itself adds to an entity: not siblings of the history */
static int hidden(const char *pl, const char *label, const char *name)
{
    if (!strcmp(label, "Descriptor_t") && !strcmp(name, "P")) return 1;
    if (!strcmp(pl, "RigidGridMotion_t") && !strcmp(label, "DataArray_t") && !strcmp(name, "OriginLocation")) return 1;
    if (!strcmp(pl, "BaseIterativeData_t") && !strcmp(label, "DataArray_t") && !strcmp(name, "TimeValues")) return 1;
    return 0;
}

static const kind_t *find_kind(const char *parent, const char *label)
{
    for (const kind_t *k = KINDS; k->parent; k++)
        if (!strcmp(k->label, label) && (!strcmp(k->parent, parent) || !strcmp(k->parent, "*"))) return k;
    return NULL;
}

/* the position the writers / readers of a kind need: ZoneBC_t may not exist before the first BC_t */
static int go_for(const char *path, const char *pl, const kind_t *k)
{
    if (!strcmp(pl, "ZoneBC_t") && !strcmp(k->label, "BC_t")) {
        char up[4096]; snprintf(up, sizeof up, "%s", path);
        char *s = strrchr(up, '/'); if (s && s != up) *s = 0;
        return go(up);
    }
    return go(path);
}

static void child_path(char *out, size_t n, const char *path, const char *name)
{
    if (!strcmp(path, "/")) snprintf(out, n, "/%s", name);
    else snprintf(out, n, "%s/%s", path, name);
}

/* position at entity i of kind k below the current parent position */
static int go_child(const char *path, const char *pl, const kind_t *k, int i)
{
    if (!strcmp(pl, "CGNSTree_t")) { int rc = cg_goto(fn, i, "end"); dbg("goto base", rc); return rc; }
    if (go(path)) return 1;
    int rc = cg_gorel(fn, k->label, i, "end");
    dbg("gorel", rc);
    return rc;
}

static void do_write(void)
{
    const char *path = W[1], *pl = W[2], *label = W[3], *name = W[4];
    long p = atol(W[5]);
    const kind_t *k = find_kind(pl, label);
    int idx = 0, rc;
    if (!k) { printf("w 9 0\n"); return; }
    if (go_for(path, pl, k)) { printf("w 1 0\n"); return; }
    if (!strcmp(label, "ZoneGridConnectivity_t")) zc_sel[0] = 0; else if (W[0][0] == 'w') zc_forget_under(path, name);
    rc = (W[0][0] == 'u' && k->up) ? k->up(name, p, &idx) : k->wr(name, p, &idx);
    dbg(label, rc);
    if (rc) { printf("w 1 0\n"); return; }
    if (idx == 0) {                       /* node-context writers hand back no index: find it by name */
        int n = 0, pos = 0; char nm[CG_MAX_GOTO_DEPTH * 33 + 1]; long a, m;
        if (!k->cnt(&n)) for (int i = 1; i <= n; i++) {
            if (k->rd(i, nm, &a, &m)) continue;
            if (hidden(pl, label, nm)) continue;              /* the harness' own children are not siblings */
            pos++;
            if (!strcmp(nm, name)) { idx = pos; break; }
        }
    }
    if (k->descr) {
        char cp[4096];
        child_path(cp, sizeof cp, path, name);
        rc = go(cp);
        if (!rc) { rc = write_P(p); dbg("write P", rc); }
        if (rc) { printf("w 0 %d P!\n", idx); return; }
    }
    printf("w 0 %d\n", idx);
}

static void do_delete(void)
{
    const char *path = W[1], *name = W[3];
    int rc;
    if (go(path)) { printf("d 1\n"); return; }
    zc_forget_under(path, name);
    rc = cg_delete_node(name);
    dbg("delete", rc);
    printf("d %d\n", rc ? 1 : 0);
}

/* ---- nodes the mid-level library does not interpret (label Blob_t), created and read through the cgio handle of the open
 * file: data of EVERY type the database stores, U4 / U8 / B1 included.  What the file holds of them is all there is. */
static int blob_parent(const char *path, int *cgio, double *pid)
{
    double root;
    if (cg_get_cgio(fn, cgio) || cg_root_id(fn, &root)) return 1;
    if (!strcmp(path, "/")) { *pid = root; return 0; }
    return cgio_get_node_id(*cgio, root, path, pid) ? 1 : 0;
}
static void do_raw(void)
{
    const char *path = W[1], *name = W[3]; long p = atol(W[4]);
    int cgio, ty = type_of_name(name, 10), nd; double pid, id; cgsize_t dims[2];
    if (blob_parent(path, &cgio, &pid)) { printf("l 1\n"); return; }
    nd = shape_of_name(name, ty, dims);
    long cnt = (long)dims[0] * (nd == 2 ? (long)dims[1] : 1);
    if (cgio_create_node(cgio, pid, name, &id)) { printf("l 1\n"); return; }
    void *buf = calloc((size_t)cnt, type_size(ty));
    fill_typed(ty, p, cnt, buf);
    int rc = cgio_set_label(cgio, id, "Blob_t") || cgio_set_dimensions(cgio, id, TYPES[ty], nd, dims) || cgio_write_all_data(cgio, id, buf);
    free(buf);
    printf("l %d\n", rc ? 1 : 0);
}
static void blob_view(const char *path)
{
    int cgio, n = 0, shown = 0; double pid; static char out[1 << 14]; size_t o = 0;
    if (blob_parent(path, &cgio, &pid) || cgio_number_children(cgio, pid, &n)) { printf("v 0 -\n"); return; }
    out[0] = 0;
    for (int i = 1; i <= n && o < sizeof out - 200; i++) {
        double id; int cnt1, nd = 0; char nm[CGIO_MAX_NAME_LENGTH + 1], lab[CGIO_MAX_LABEL_LENGTH + 1], dt[CGIO_MAX_DATATYPE_LENGTH + 1]; cgsize_t dims[CGIO_MAX_DIMENSIONS];
        if (cgio_children_ids(cgio, pid, i, 1, &cnt1, &id) || cgio_get_label(cgio, id, lab) || strcmp(lab, "Blob_t")) continue;
        if (cgio_get_name(cgio, id, nm)) continue;
        long a = -1;
        cgsize_t want[2]; int ty = type_of_name(nm, 10), wnd = shape_of_name(nm, ty, want);
        if (cgio_get_data_type(cgio, id, dt) || cgio_get_dimensions(cgio, id, &nd, dims)) a = -1;
        else if (strcmp(dt, TYPES[ty]) || nd != wnd || dims[0] != want[0] || (nd == 2 && dims[1] != want[1])) a = -4;
        else {
            long cnt = (long)dims[0] * (nd == 2 ? (long)dims[1] : 1);
            void *buf = calloc((size_t)cnt + 1, type_size(ty));
            if (cgio_read_all_data_type(cgio, id, dt, buf)) a = -5; else a = check_typed(ty, cnt, buf);
            free(buf);
        }
        o += snprintf(out + o, sizeof out - o, "%s%s:%ld", shown ? "," : "", nm, a);
        shown++;
    }
    printf("v %d %s\n", shown, shown ? out : "-");
}

static void do_link(void)
{
    const char *path = W[1], *name = W[4], *file = W[5], *target = W[6];
    int rc;
    if (go(path)) { printf("l 1\n"); return; }
    rc = cg_link_write(name, strcmp(file, "-") ? file : "", target);
    dbg("link", rc);
    printf("l %d\n", rc ? 1 : 0);
}

static void do_view(void)
{
    const char *path = W[1], *pl = W[2], *label = W[3];
    const kind_t *k = find_kind(pl, label);
    int n = 0, rc, shown = 0;
    static char out[1 << 16];
    size_t o = 0;
    if (!strcmp(label, "Blob_t")) { blob_view(path); return; }
    if (!k) { printf("v 9 -\n"); return; }
    if (go_for(path, pl, k)) { printf("v 0 -\n"); return; }
    rc = k->cnt(&n);
    dbg("count", rc);
    if (rc) { printf("v 0 -\n"); return; }
    out[0] = 0;
    for (int i = 1; i <= n; i++) {
        char nm[CG_MAX_GOTO_DEPTH * 33 + 1]; long a = -1, m = -1, p = -1; int havep = 0;
        if (go_for(path, pl, k)) { o += snprintf(out + o, sizeof out - o, "%s?%d", shown ? "," : "", i); shown++; continue; }
        nm[0] = 0;
        rc = k->rd(i, nm, &a, &m);
        dbg("read", rc);
        if (rc) { o += snprintf(out + o, sizeof out - o, "%s?%d", shown ? "," : "", i); shown++; continue; }
        if (hidden(pl, label, nm)) continue;                                   /* the harness' own children */
        int atchild = !go_child(path, pl, k, i), linklen = 0;
        if (atchild && !cg_is_link(&linklen) && linklen > 0) {                 /* a link: its identity, not what is behind it */
            char *lf = NULL, *lp = NULL;
            o += snprintf(out + o, sizeof out - o, "%s%s:", shown ? "," : "", nm);
            if (cg_link_read(&lf, &lp)) o += snprintf(out + o, sizeof out - o, "@?");
            else o += snprintf(out + o, sizeof out - o, "@%s|%s", lf ? lf : "", lp ? lp : "");
            if (lf) cg_free(lf);
            if (lp) cg_free(lp);
            shown++;
            if (o > sizeof out - 1200) break;
            continue;
        }
        if (k->descr) { if (atchild) havep = read_P(&p); }
        o += snprintf(out + o, sizeof out - o, "%s%s:", shown ? "," : "", nm);
        if (k->descr) {
            if (!havep) o += snprintf(out + o, sizeof out - o, "?");
            else if (m > 0 && p % m != a) o += snprintf(out + o, sizeof out - o, "%ld!a=%ld", p, a);
            else if (m == 0 && p != a) o += snprintf(out + o, sizeof out - o, "%ld!a=%ld", p, a);
            else o += snprintf(out + o, sizeof out - o, "%ld", p);
        } else {
            o += snprintf(out + o, sizeof out - o, "%ld", a);
        }
        shown++;
        if (o > sizeof out - 1200) break;
    }
    printf("v %d %s\n", shown, shown ? out : "-");
}

/* attach <path>: everything the API lets one hang on the node at <path>; prints which calls were accepted */
static void do_attach(void)
{
    int v[1] = {7}, rind[6] = {1, 1, 0, 0, 0, 0}; cgsize_t dim = 1;
    if (go(W[1])) { printf("a -\n"); return; }
    printf("a");
    if (!cg_dataclass_write(CGNS_ENUMV(Dimensional))) printf(" dc");
    if (!cg_unitsfull_write(CGNS_ENUMV(Gram), CGNS_ENUMV(Centimeter), CGNS_ENUMV(Second), CGNS_ENUMV(Celsius), CGNS_ENUMV(Radian),
                            CGNS_ENUMV(Ampere), CGNS_ENUMV(Mole), CGNS_ENUMV(Candela))) printf(" un");
    if (!cg_descriptor_write("AttD", "attached")) printf(" de");
    if (!cg_user_data_write("AttU")) printf(" ud");
    if (!cg_array_write("AttA", CGNS_ENUMV(Integer), 1, &dim, v)) printf(" ar");
    if (!cg_ordinal_write(5)) printf(" or");
    if (!cg_gridlocation_write(CGNS_ENUMV(CellCenter))) printf(" gl");
    if (!cg_rind_write(rind)) printf(" ri");
    if (!cg_famname_write("AttFam")) printf(" fn");
    if (!cg_multifam_write("AttF", "AttFam")) printf(" mf");
    printf("\n");
}

static void upath(char *out, size_t n, const char *path)
{
    snprintf(out, n, "%s", path);
    char *s = strrchr(out, '/');
    if (s && s != out) *s = 0; else if (s) s[1] = 0;
}

/* full <path>: the whole session view of ONE node: every scalar / single-child attribute the API can read at that position,
   the names of its descriptors, user data and arrays, and the values the reader of its own kind returns */
static void do_full(void)
{
    const char *path = W[1];
    char lab[33], up[4096];
    int st, n, iv, r6[6];
    CGNS_ENUMT(DataClass_t) dc; CGNS_ENUMT(GridLocation_t) gl;
    CGNS_ENUMT(MassUnits_t) m; CGNS_ENUMT(LengthUnits_t) l; CGNS_ENUMT(TimeUnits_t) t; CGNS_ENUMT(TemperatureUnits_t) T;
    CGNS_ENUMT(AngleUnits_t) a; CGNS_ENUMT(ElectricCurrentUnits_t) cu; CGNS_ENUMT(SubstanceAmountUnits_t) am;
    CGNS_ENUMT(LuminousIntensityUnits_t) in;
    char nm[CG_MAX_GOTO_DEPTH * 33 + 1], fam[CG_MAX_GOTO_DEPTH * 33 + 1];
    if (go(path)) { printf("f -\n"); return; }
    snprintf(lab, sizeof lab, "%s", plabel());
    printf("f %s", lab);
    st = cg_dataclass_read(&dc); printf(" dc=%d:%d", st, st ? -1 : (int)dc);
    st = cg_nunits(&n); printf(" nun=%d:%d", st, st ? -1 : n);
    st = cg_unitsfull_read(&m, &l, &t, &T, &a, &cu, &am, &in);
    if (st) printf(" un=%d", st); else printf(" un=0:%d,%d,%d,%d,%d,%d,%d,%d", (int)m, (int)l, (int)t, (int)T, (int)a, (int)cu, (int)am, (int)in);
    st = cg_ndescriptors(&n); printf(" nd=%d:%d[", st, st ? -1 : n);
    for (int i = 1; !st && i <= n; i++) { char *text = NULL; if (!cg_descriptor_read(i, nm, &text)) printf("%s%s=%s", i > 1 ? "," : "", nm, text ? text : "?"); if (text) cg_free(text); }
    printf("]");
    st = cg_nuser_data(&n); printf(" nu=%d:%d[", st, st ? -1 : n);
    for (int i = 1; !st && i <= n; i++) if (!cg_user_data_read(i, nm)) printf("%s%s", i > 1 ? "," : "", nm);
    printf("]");
    st = cg_narrays(&n); printf(" na=%d:%d[", st, st ? -1 : n);
    for (int i = 1; !st && i <= n; i++) { CGNS_ENUMT(DataType_t) dt; int nd; cgsize_t dims[12]; if (!cg_array_info(i, nm, &dt, &nd, dims)) printf("%s%s", i > 1 ? "," : "", nm); }
    printf("]");
    st = cg_ordinal_read(&iv); printf(" or=%d:%d", st, st ? -1 : iv);
    st = cg_gridlocation_read(&gl); printf(" gl=%d:%d", st, st ? -1 : (int)gl);
    memset(r6, 0, sizeof r6);
    st = cg_rind_read(r6); printf(" ri=%d:%d,%d", st, st ? -1 : r6[0], st ? -1 : r6[1]);
    st = cg_famname_read(fam); printf(" fn=%d:%s", st, st ? "-" : fam);
    n = 0; st = n_multifam(&n); printf(" mf=%d[", n);
    for (int i = 1; i <= n; i++) if (!cg_multifam_read(i, nm, fam)) printf("%s%s=%s", i > 1 ? "," : "", nm, fam);
    printf("]");
    /* the reader of the node's own kind (most are called at the PARENT position) */
    upath(up, sizeof up, path);
    printf(" own=");
    if (!strcmp(lab, "ReferenceState_t")) { char *d = NULL; if (go(up)) printf("?"); else { st = cg_state_read(&d); printf("%d:%s", st, d ? d : "-"); if (d) cg_free(d); } }
    else if (!strcmp(lab, "ConvergenceHistory_t")) { char *d = NULL; int it = -1; if (go(up)) printf("?"); else { st = cg_convergence_read(&it, &d); printf("%d:%d:%s", st, it, d ? d : "-"); if (d) cg_free(d); } }
    else if (!strcmp(lab, "FlowEquationSet_t")) { int e[7] = {-1, -1, -1, -1, -1, -1, -1}; if (go(up)) printf("?"); else { st = cg_equationset_read(&e[0], &e[1], &e[2], &e[3], &e[4], &e[5], &e[6]); printf("%d:%d,%d,%d,%d,%d,%d,%d", st, e[0], e[1], e[2], e[3], e[4], e[5], e[6]); } }
    else if (!strcmp(lab, "ParticleEquationSet_t")) { int e[7] = {-1, -1, -1, -1, -1, -1, -1}; if (go(up)) printf("?"); else { st = cg_particle_equationset_read(&e[0], &e[1], &e[2], &e[3], &e[4], &e[5], &e[6]); printf("%d:%d,%d,%d,%d,%d,%d,%d", st, e[0], e[1], e[2], e[3], e[4], e[5], e[6]); } }
    else if (!strcmp(lab, "GoverningEquations_t")) { CGNS_ENUMT(GoverningEquationsType_t) ty; if (go(up)) printf("?"); else { st = cg_governing_read(&ty); printf("%d:%d", st, st ? -1 : (int)ty); } }
    else if (!strcmp(lab, "ParticleGoverningEquations_t")) { CGNS_ENUMT(ParticleGoverningEquationsType_t) ty; if (go(up)) printf("?"); else { st = cg_particle_governing_read(&ty); printf("%d:%d", st, st ? -1 : (int)ty); } }
    else if (strstr(lab, "Model_t") && !strncmp(lab, "Particle", 8)) { CGNS_ENUMT(ParticleModelType_t) ty; if (go(up)) printf("?"); else { st = cg_particle_model_read(lab, &ty); printf("%d:%d", st, st ? -1 : (int)ty); } }
    else if (strstr(lab, "Model_t") || !strcmp(lab, "TurbulenceClosure_t")) { CGNS_ENUMT(ModelType_t) ty; if (go(up)) printf("?"); else { st = cg_model_read(lab, &ty); printf("%d:%d", st, st ? -1 : (int)ty); } }
    else if (!strcmp(lab, "Gravity_t")) { float g[3] = {-1, -1, -1}; st = cg_gravity_read(fn, cB, g); printf("%d:%ld,%ld,%ld", st, (long)g[0], (long)g[1], (long)g[2]); }
    else if (!strcmp(lab, "RotatingCoordinates_t")) { float r[3] = {-1, -1, -1}, c[3] = {-1, -1, -1}; if (go(up)) printf("?"); else { st = cg_rotating_read(r, c); printf("%d:%ld,%ld", st, (long)r[0], (long)c[0]); } }
    else if (!strcmp(lab, "BaseIterativeData_t")) { int ns = -1; st = cg_biter_read(fn, cB, nm, &ns); printf("%d:%s:%d", st, st ? "-" : nm, ns); }
    else if (!strcmp(lab, "ZoneIterativeData_t")) { st = cg_ziter_read(fn, cB, Z, nm); printf("%d:%s", st, st ? "-" : nm); }
    else if (!strcmp(lab, "ParticleIterativeData_t")) { st = cg_piter_read(fn, cB, PZ, nm); printf("%d:%s", st, st ? "-" : nm); }
    else if (!strcmp(lab, "WallFunction_t")) { CGNS_ENUMT(WallFunctionType_t) ty; st = cg_bc_wallfunction_read(fn, cB, Z, ix("BC_t"), &ty); printf("%d:%d", st, st ? -1 : (int)ty); }
    else if (!strcmp(lab, "Area_t")) { CGNS_ENUMT(AreaType_t) ty; float ar = -1; char rn[33]; st = cg_bc_area_read(fn, cB, Z, ix("BC_t"), &ty, &ar, rn); printf("%d:%d:%ld", st, st ? -1 : (int)ty, (long)ar); }
    else if (!strcmp(lab, "Periodic_t")) { float c[3] = {-1, -1, -1}, an[3], tr[3]; if (zc()) printf("?"); else { st = cg_conn_periodic_read(fn, cB, Z, ix("GridConnectivity_t"), c, an, tr); printf("%d:%ld", st, (long)c[0]); } }
    else if (!strcmp(lab, "AverageInterface_t")) { CGNS_ENUMT(AverageInterfaceType_t) ty; if (zc()) printf("?"); else { st = cg_conn_average_read(fn, cB, Z, ix("GridConnectivity_t"), &ty); printf("%d:%d", st, st ? -1 : (int)ty); } }
    else if (!strcmp(lab, "CGNSBase_t")) { CGNS_ENUMT(SimulationType_t) ty; st = cg_simulation_type_read(fn, cB, &ty); printf("%d:%d", st, st ? -1 : (int)ty); }
    else if (!strcmp(lab, "BC_t")) { CGNS_ENUMT(GridLocation_t) loc; st = cg_boco_gridlocation_read(fn, cB, Z, ix("BC_t"), &loc); printf("%d:%d", st, st ? -1 : (int)loc); }
    else if (!strcmp(lab, "BCData_t")) { CGNS_ENUMT(BCType_t) ty; int d = -1, ne = -1; st = cg_dataset_read(fn, cB, Z, ix("BC_t"), ix("BCDataSet_t"), nm, &ty, &d, &ne); printf("%d:%d,%d", st, d, ne); }
    else printf("-");
    printf("\n");
}

static void do_mk(void)
{
    const char *path = W[1], *what = W[2];
    int rc = go(path);
    float f3[3] = {0, 0, 1};
    char vtxt[32];
    if (rc) { printf("c 1\n"); return; }
    f3[0] = (float)variant;
    snprintf(vtxt, sizeof vtxt, "v%d", variant);
    if (!strcmp(what, "biter")) {
        /* a BaseIterativeData_t without TimeValues / IterationValues cannot be read back */
        double tv[3] = {0, 1, 2}; cgsize_t dim = 3;
        rc = cg_biter_write(fn, cB, NW > 3 ? W[3] : "BaseIterativeData", 3);        /* the caller chooses the name */
        if (!rc) rc = cg_goto(fn, cB, "BaseIterativeData_t", 1, "end");
        if (!rc) rc = cg_array_write("TimeValues", CGNS_ENUMV(RealDouble), 1, &dim, tv);
    }
    else if (!strcmp(what, "ziter")) rc = cg_ziter_write(fn, cB, Z, NW > 3 ? W[3] : "ZoneIterativeData");
    else if (!strcmp(what, "piter")) rc = cg_piter_write(fn, cB, PZ, NW > 3 ? W[3] : "ParticleIterativeData");
    else if (!strcmp(what, "state")) rc = cg_state_write(variant ? vtxt : "");        /* plain: no ReferenceStateDescription child */
    else if (!strcmp(what, "converg")) rc = cg_convergence_write(5 + variant, variant ? vtxt : "");
    else if (!strcmp(what, "eqset")) rc = cg_equationset_write(variant % 2 ? 2 : 3);
    else if (!strcmp(what, "governing")) rc = cg_governing_write(variant % 2 ? CGNS_ENUMV(Euler) : CGNS_ENUMV(NSTurbulent));
    else if (!strcmp(what, "model")) rc = cg_model_write(W[3], variant % 2 ? CGNS_ENUMV(ModelTypeNull) : CGNS_ENUMV(ModelTypeUserDefined));
    else if (!strcmp(what, "peqset")) rc = cg_particle_equationset_write(variant % 2 ? 2 : 3);
    else if (!strcmp(what, "pgoverning")) rc = cg_particle_governing_write(CGNS_ENUMV(DEM));
    else if (!strcmp(what, "pmodel")) rc = cg_particle_model_write(W[3], variant % 2 ? CGNS_ENUMV(ParticleModelTypeNull) : CGNS_ENUMV(ParticleModelTypeUserDefined));
    else if (!strcmp(what, "units")) rc = cg_units_write(CGNS_ENUMV(Kilogram), CGNS_ENUMV(Meter), CGNS_ENUMV(Second), CGNS_ENUMV(Kelvin), CGNS_ENUMV(Degree));
    else if (!strcmp(what, "unitsfull")) rc = cg_unitsfull_write(CGNS_ENUMV(Gram), CGNS_ENUMV(Centimeter), CGNS_ENUMV(Second), CGNS_ENUMV(Celsius), CGNS_ENUMV(Radian),
                                                                 CGNS_ENUMV(Ampere), CGNS_ENUMV(Mole), CGNS_ENUMV(Candela));
    /* single-valued attributes of the index API, written again with another value (variant) */
    else if (!strcmp(what, "simtype")) rc = cg_simulation_type_write(fn, cB, variant == 1 ? CGNS_ENUMV(SimulationTypeNull) : variant == 2 ? CGNS_ENUMV(TimeAccurate) : CGNS_ENUMV(NonTimeAccurate));
    else if (!strcmp(what, "simtype2")) rc = cg_simulation_type_write(fn, cB, variant == 2 ? CGNS_ENUMV(TimeAccurate) : CGNS_ENUMV(NonTimeAccurate));
    else if (!strcmp(what, "bocoloc")) rc = cg_boco_gridlocation_write(fn, cB, Z, ix("BC_t"), variant == 2 ? CGNS_ENUMV(FaceCenter) : CGNS_ENUMV(Vertex));
    else if (!strcmp(what, "gravity")) rc = cg_gravity_write(fn, cB, f3);
    else if (!strcmp(what, "axisym")) rc = cg_axisym_write(fn, cB, f3, f3);
    else if (!strcmp(what, "rotating")) rc = cg_rotating_write(f3, f3);
    else if (!strcmp(what, "bcdata")) rc = cg_bcdata_write(fn, cB, Z, ix("BC_t"), ix("BCDataSet_t"), CGNS_ENUMV(Dirichlet));
    else if (!strcmp(what, "wallfn")) rc = cg_bc_wallfunction_write(fn, cB, Z, ix("BC_t"), variant % 2 ? CGNS_ENUMV(WallFunctionTypeUserDefined) : CGNS_ENUMV(Generic));
    else if (!strcmp(what, "area")) rc = cg_bc_area_write(fn, cB, Z, ix("BC_t"), variant % 2 ? CGNS_ENUMV(CaptureArea) : CGNS_ENUMV(BleedArea), 1.0f + (float)variant, "region");
    else if (!strcmp(what, "periodic")) { if (!(rc = zc())) rc = cg_conn_periodic_write(fn, cB, Z, ix("GridConnectivity_t"), f3, f3, f3); }
    else if (!strcmp(what, "average")) { if (!(rc = zc())) rc = cg_conn_average_write(fn, cB, Z, ix("GridConnectivity_t"), variant % 2 ? CGNS_ENUMV(AverageI) : CGNS_ENUMV(AverageAll)); }
    else rc = 9;
    dbg(what, rc);
    printf("c %d\n", rc ? 1 : 0);
}

int main(void)
{
    static char line[8192];
    while (fgets(line, sizeof line, stdin)) {
        if (!split(line)) continue;
        const char *c = W[0];
        int rc;
        if (!strcmp(c, "ft") && NW >= 2) { rc = cg_set_file_type(!strcmp(W[1], "hdf5") ? CG_FILE_HDF5 : CG_FILE_ADF); printf("c %d\n", rc); }
        else if (!strcmp(c, "compress") && NW >= 2) { rc = cg_configure(CG_CONFIG_COMPRESS, (void *)(size_t)atol(W[1])); printf("c %d\n", rc); }
        else if (!strcmp(c, "open") && NW >= 3) {
            int mode = W[1][0] == 'r' ? CG_MODE_READ : W[1][0] == 'w' ? CG_MODE_WRITE : CG_MODE_MODIFY;
            snprintf(fname, sizeof fname, "%s", W[2]);
            zc_sel[0] = 0;
            rc = cg_open(fname, mode, &fn); dbg("open", rc); printf("c %d\n", rc ? 1 : 0);
        }
        else if (!strcmp(c, "close")) { rc = cg_close(fn); dbg("close", rc); printf("c %d\n", rc ? 1 : 0); }
        else if (!strcmp(c, "reopen") && NW >= 2) {
            zc_sel[0] = 0;
            rc = cg_close(fn); dbg("close", rc);
            if (!rc) { rc = cg_open(fname, W[1][0] == 'r' ? CG_MODE_READ : CG_MODE_MODIFY, &fn); dbg("open", rc); }
            printf("o %d\n", rc ? 1 : 0);
        }
        else if (!strcmp(c, "variant") && NW >= 2) { variant = atoi(W[1]); printf("c 0\n"); }
        else if (!strcmp(c, "zcmode") && NW >= 2) { zc_keep = !strcmp(W[1], "keep"); zc_sel[0] = 0; printf("c 0\n"); }
        else if (!strcmp(c, "attach") && NW >= 2) do_attach();
        else if (!strcmp(c, "full") && NW >= 2) do_full();
        else if (!strcmp(c, "mk") && NW >= 3) do_mk();
        else if ((!strcmp(c, "w") || !strcmp(c, "u")) && NW >= 6) do_write();
        else if (!strcmp(c, "d") && NW >= 4) do_delete();
        else if (!strcmp(c, "v") && NW >= 4) do_view();
        else if (!strcmp(c, "ln") && NW >= 7) do_link();
        else if (!strcmp(c, "raw") && NW >= 5) do_raw();
        else if (!strcmp(c, "p") && NW >= 2) { long pv = -1; if (go(W[1]) || !read_P(&pv)) printf("p ?\n"); else printf("p %ld\n", pv); }
        else if (!strcmp(c, "mv") && NW >= 3) { rc = rename(W[1], W[2]); printf("c %d\n", rc ? 1 : 0); }
        else printf("badline %s\n", c);
        fflush(stdout);
    }
    return 0;
}
