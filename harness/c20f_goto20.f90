! c20f_goto20.f90 -- cg_goto_f / cg_gorel_f with 0..20 (label, index) pairs (CG_MAX_GOTO_DEPTH = 20): the twenty look-alike
! blocks of the module procedures forward UserDataName_k / i_k one by one, so every depth is exercised with its own label and
! index (checks/C20f.py: gen_deep_script).  Written out once from a loop; the labels are exact-length heap strings.
!   gotov B k <hex label> <index> ... (k pairs)        gorelv k <hex label> <index> ...
module c20f_goto20
  use c20f_m
  implicit none
contains

  subroutine op_gotov()
    integer :: B, k, ier, i, ix(20)
    type(fstr) :: s(20)
    B = int(ti()); k = int(ti()); ix = 0; ier = -99
    do i = 1, min(k, 20)
      call ts(s(i)); ix(i) = int(ti())
    end do
    select case (k)
    case (1); call cg_goto_f(fn, B, ier, s(1)%p, ix(1), 'end')
    case (2); call cg_goto_f(fn, B, ier, s(1)%p, ix(1), s(2)%p, ix(2), 'end')
    case (3); call cg_goto_f(fn, B, ier, s(1)%p, ix(1), s(2)%p, ix(2), s(3)%p, ix(3), 'end')
    case (4); call cg_goto_f(fn, B, ier, s(1)%p, ix(1), s(2)%p, ix(2), s(3)%p, ix(3), s(4)%p, ix(4), 'end')
    case (5); call cg_goto_f(fn, B, ier, s(1)%p, ix(1), s(2)%p, ix(2), s(3)%p, ix(3), s(4)%p, ix(4), s(5)%p, &
        ix(5), 'end')
    case (6); call cg_goto_f(fn, B, ier, s(1)%p, ix(1), s(2)%p, ix(2), s(3)%p, ix(3), s(4)%p, ix(4), s(5)%p, &
        ix(5), s(6)%p, ix(6), 'end')
    case (7); call cg_goto_f(fn, B, ier, s(1)%p, ix(1), s(2)%p, ix(2), s(3)%p, ix(3), s(4)%p, ix(4), s(5)%p, &
        ix(5), s(6)%p, ix(6), s(7)%p, ix(7), 'end')
    case (8); call cg_goto_f(fn, B, ier, s(1)%p, ix(1), s(2)%p, ix(2), s(3)%p, ix(3), s(4)%p, ix(4), s(5)%p, &
        ix(5), s(6)%p, ix(6), s(7)%p, ix(7), s(8)%p, ix(8), 'end')
    case (9); call cg_goto_f(fn, B, ier, s(1)%p, ix(1), s(2)%p, ix(2), s(3)%p, ix(3), s(4)%p, ix(4), s(5)%p, &
        ix(5), s(6)%p, ix(6), s(7)%p, ix(7), s(8)%p, ix(8), s(9)%p, ix(9), 'end')
    case (10); call cg_goto_f(fn, B, ier, s(1)%p, ix(1), s(2)%p, ix(2), s(3)%p, ix(3), s(4)%p, ix(4), s(5)%p, &
        ix(5), s(6)%p, ix(6), s(7)%p, ix(7), s(8)%p, ix(8), s(9)%p, ix(9), s(10)%p, ix(10), 'end')
    case (11); call cg_goto_f(fn, B, ier, s(1)%p, ix(1), s(2)%p, ix(2), s(3)%p, ix(3), s(4)%p, ix(4), s(5)%p, &
        ix(5), s(6)%p, ix(6), s(7)%p, ix(7), s(8)%p, ix(8), s(9)%p, ix(9), s(10)%p, ix(10), s(11)%p, ix(11), &
        'end')
    case (12); call cg_goto_f(fn, B, ier, s(1)%p, ix(1), s(2)%p, ix(2), s(3)%p, ix(3), s(4)%p, ix(4), s(5)%p, &
        ix(5), s(6)%p, ix(6), s(7)%p, ix(7), s(8)%p, ix(8), s(9)%p, ix(9), s(10)%p, ix(10), s(11)%p, ix(11), &
        s(12)%p, ix(12), 'end')
    case (13); call cg_goto_f(fn, B, ier, s(1)%p, ix(1), s(2)%p, ix(2), s(3)%p, ix(3), s(4)%p, ix(4), s(5)%p, &
        ix(5), s(6)%p, ix(6), s(7)%p, ix(7), s(8)%p, ix(8), s(9)%p, ix(9), s(10)%p, ix(10), s(11)%p, ix(11), &
        s(12)%p, ix(12), s(13)%p, ix(13), 'end')
    case (14); call cg_goto_f(fn, B, ier, s(1)%p, ix(1), s(2)%p, ix(2), s(3)%p, ix(3), s(4)%p, ix(4), s(5)%p, &
        ix(5), s(6)%p, ix(6), s(7)%p, ix(7), s(8)%p, ix(8), s(9)%p, ix(9), s(10)%p, ix(10), s(11)%p, ix(11), &
        s(12)%p, ix(12), s(13)%p, ix(13), s(14)%p, ix(14), 'end')
    case (15); call cg_goto_f(fn, B, ier, s(1)%p, ix(1), s(2)%p, ix(2), s(3)%p, ix(3), s(4)%p, ix(4), s(5)%p, &
        ix(5), s(6)%p, ix(6), s(7)%p, ix(7), s(8)%p, ix(8), s(9)%p, ix(9), s(10)%p, ix(10), s(11)%p, ix(11), &
        s(12)%p, ix(12), s(13)%p, ix(13), s(14)%p, ix(14), s(15)%p, ix(15), 'end')
    case (16); call cg_goto_f(fn, B, ier, s(1)%p, ix(1), s(2)%p, ix(2), s(3)%p, ix(3), s(4)%p, ix(4), s(5)%p, &
        ix(5), s(6)%p, ix(6), s(7)%p, ix(7), s(8)%p, ix(8), s(9)%p, ix(9), s(10)%p, ix(10), s(11)%p, ix(11), &
        s(12)%p, ix(12), s(13)%p, ix(13), s(14)%p, ix(14), s(15)%p, ix(15), s(16)%p, ix(16), 'end')
    case (17); call cg_goto_f(fn, B, ier, s(1)%p, ix(1), s(2)%p, ix(2), s(3)%p, ix(3), s(4)%p, ix(4), s(5)%p, &
        ix(5), s(6)%p, ix(6), s(7)%p, ix(7), s(8)%p, ix(8), s(9)%p, ix(9), s(10)%p, ix(10), s(11)%p, ix(11), &
        s(12)%p, ix(12), s(13)%p, ix(13), s(14)%p, ix(14), s(15)%p, ix(15), s(16)%p, ix(16), s(17)%p, ix(17), &
        'end')
    case (18); call cg_goto_f(fn, B, ier, s(1)%p, ix(1), s(2)%p, ix(2), s(3)%p, ix(3), s(4)%p, ix(4), s(5)%p, &
        ix(5), s(6)%p, ix(6), s(7)%p, ix(7), s(8)%p, ix(8), s(9)%p, ix(9), s(10)%p, ix(10), s(11)%p, ix(11), &
        s(12)%p, ix(12), s(13)%p, ix(13), s(14)%p, ix(14), s(15)%p, ix(15), s(16)%p, ix(16), s(17)%p, ix(17), &
        s(18)%p, ix(18), 'end')
    case (19); call cg_goto_f(fn, B, ier, s(1)%p, ix(1), s(2)%p, ix(2), s(3)%p, ix(3), s(4)%p, ix(4), s(5)%p, &
        ix(5), s(6)%p, ix(6), s(7)%p, ix(7), s(8)%p, ix(8), s(9)%p, ix(9), s(10)%p, ix(10), s(11)%p, ix(11), &
        s(12)%p, ix(12), s(13)%p, ix(13), s(14)%p, ix(14), s(15)%p, ix(15), s(16)%p, ix(16), s(17)%p, ix(17), &
        s(18)%p, ix(18), s(19)%p, ix(19), 'end')
    case (20); call cg_goto_f(fn, B, ier, s(1)%p, ix(1), s(2)%p, ix(2), s(3)%p, ix(3), s(4)%p, ix(4), s(5)%p, &
        ix(5), s(6)%p, ix(6), s(7)%p, ix(7), s(8)%p, ix(8), s(9)%p, ix(9), s(10)%p, ix(10), s(11)%p, ix(11), &
        s(12)%p, ix(12), s(13)%p, ix(13), s(14)%p, ix(14), s(15)%p, ix(15), s(16)%p, ix(16), s(17)%p, ix(17), &
        s(18)%p, ix(18), s(19)%p, ix(19), s(20)%p, ix(20), 'end')
    case default; call cg_goto_f(fn, B, ier, 'end')
    end select
    call ier_out(ier); call nl()
  end subroutine

  subroutine op_gorelv()
    integer :: B, k, ier, i, ix(20)
    type(fstr) :: s(20)
    B = 0; k = int(ti()); ix = 0; ier = -99
    do i = 1, min(k, 20)
      call ts(s(i)); ix(i) = int(ti())
    end do
    select case (k)
    case (1); call cg_gorel_f(fn, ier, s(1)%p, ix(1), 'end')
    case (2); call cg_gorel_f(fn, ier, s(1)%p, ix(1), s(2)%p, ix(2), 'end')
    case (3); call cg_gorel_f(fn, ier, s(1)%p, ix(1), s(2)%p, ix(2), s(3)%p, ix(3), 'end')
    case (4); call cg_gorel_f(fn, ier, s(1)%p, ix(1), s(2)%p, ix(2), s(3)%p, ix(3), s(4)%p, ix(4), 'end')
    case (5); call cg_gorel_f(fn, ier, s(1)%p, ix(1), s(2)%p, ix(2), s(3)%p, ix(3), s(4)%p, ix(4), s(5)%p, ix(5), &
        'end')
    case (6); call cg_gorel_f(fn, ier, s(1)%p, ix(1), s(2)%p, ix(2), s(3)%p, ix(3), s(4)%p, ix(4), s(5)%p, ix(5), &
        s(6)%p, ix(6), 'end')
    case (7); call cg_gorel_f(fn, ier, s(1)%p, ix(1), s(2)%p, ix(2), s(3)%p, ix(3), s(4)%p, ix(4), s(5)%p, ix(5), &
        s(6)%p, ix(6), s(7)%p, ix(7), 'end')
    case (8); call cg_gorel_f(fn, ier, s(1)%p, ix(1), s(2)%p, ix(2), s(3)%p, ix(3), s(4)%p, ix(4), s(5)%p, ix(5), &
        s(6)%p, ix(6), s(7)%p, ix(7), s(8)%p, ix(8), 'end')
    case (9); call cg_gorel_f(fn, ier, s(1)%p, ix(1), s(2)%p, ix(2), s(3)%p, ix(3), s(4)%p, ix(4), s(5)%p, ix(5), &
        s(6)%p, ix(6), s(7)%p, ix(7), s(8)%p, ix(8), s(9)%p, ix(9), 'end')
    case (10); call cg_gorel_f(fn, ier, s(1)%p, ix(1), s(2)%p, ix(2), s(3)%p, ix(3), s(4)%p, ix(4), s(5)%p, &
        ix(5), s(6)%p, ix(6), s(7)%p, ix(7), s(8)%p, ix(8), s(9)%p, ix(9), s(10)%p, ix(10), 'end')
    case (11); call cg_gorel_f(fn, ier, s(1)%p, ix(1), s(2)%p, ix(2), s(3)%p, ix(3), s(4)%p, ix(4), s(5)%p, &
        ix(5), s(6)%p, ix(6), s(7)%p, ix(7), s(8)%p, ix(8), s(9)%p, ix(9), s(10)%p, ix(10), s(11)%p, ix(11), &
        'end')
    case (12); call cg_gorel_f(fn, ier, s(1)%p, ix(1), s(2)%p, ix(2), s(3)%p, ix(3), s(4)%p, ix(4), s(5)%p, &
        ix(5), s(6)%p, ix(6), s(7)%p, ix(7), s(8)%p, ix(8), s(9)%p, ix(9), s(10)%p, ix(10), s(11)%p, ix(11), &
        s(12)%p, ix(12), 'end')
    case (13); call cg_gorel_f(fn, ier, s(1)%p, ix(1), s(2)%p, ix(2), s(3)%p, ix(3), s(4)%p, ix(4), s(5)%p, &
        ix(5), s(6)%p, ix(6), s(7)%p, ix(7), s(8)%p, ix(8), s(9)%p, ix(9), s(10)%p, ix(10), s(11)%p, ix(11), &
        s(12)%p, ix(12), s(13)%p, ix(13), 'end')
    case (14); call cg_gorel_f(fn, ier, s(1)%p, ix(1), s(2)%p, ix(2), s(3)%p, ix(3), s(4)%p, ix(4), s(5)%p, &
        ix(5), s(6)%p, ix(6), s(7)%p, ix(7), s(8)%p, ix(8), s(9)%p, ix(9), s(10)%p, ix(10), s(11)%p, ix(11), &
        s(12)%p, ix(12), s(13)%p, ix(13), s(14)%p, ix(14), 'end')
    case (15); call cg_gorel_f(fn, ier, s(1)%p, ix(1), s(2)%p, ix(2), s(3)%p, ix(3), s(4)%p, ix(4), s(5)%p, &
        ix(5), s(6)%p, ix(6), s(7)%p, ix(7), s(8)%p, ix(8), s(9)%p, ix(9), s(10)%p, ix(10), s(11)%p, ix(11), &
        s(12)%p, ix(12), s(13)%p, ix(13), s(14)%p, ix(14), s(15)%p, ix(15), 'end')
    case (16); call cg_gorel_f(fn, ier, s(1)%p, ix(1), s(2)%p, ix(2), s(3)%p, ix(3), s(4)%p, ix(4), s(5)%p, &
        ix(5), s(6)%p, ix(6), s(7)%p, ix(7), s(8)%p, ix(8), s(9)%p, ix(9), s(10)%p, ix(10), s(11)%p, ix(11), &
        s(12)%p, ix(12), s(13)%p, ix(13), s(14)%p, ix(14), s(15)%p, ix(15), s(16)%p, ix(16), 'end')
    case (17); call cg_gorel_f(fn, ier, s(1)%p, ix(1), s(2)%p, ix(2), s(3)%p, ix(3), s(4)%p, ix(4), s(5)%p, &
        ix(5), s(6)%p, ix(6), s(7)%p, ix(7), s(8)%p, ix(8), s(9)%p, ix(9), s(10)%p, ix(10), s(11)%p, ix(11), &
        s(12)%p, ix(12), s(13)%p, ix(13), s(14)%p, ix(14), s(15)%p, ix(15), s(16)%p, ix(16), s(17)%p, ix(17), &
        'end')
    case (18); call cg_gorel_f(fn, ier, s(1)%p, ix(1), s(2)%p, ix(2), s(3)%p, ix(3), s(4)%p, ix(4), s(5)%p, &
        ix(5), s(6)%p, ix(6), s(7)%p, ix(7), s(8)%p, ix(8), s(9)%p, ix(9), s(10)%p, ix(10), s(11)%p, ix(11), &
        s(12)%p, ix(12), s(13)%p, ix(13), s(14)%p, ix(14), s(15)%p, ix(15), s(16)%p, ix(16), s(17)%p, ix(17), &
        s(18)%p, ix(18), 'end')
    case (19); call cg_gorel_f(fn, ier, s(1)%p, ix(1), s(2)%p, ix(2), s(3)%p, ix(3), s(4)%p, ix(4), s(5)%p, &
        ix(5), s(6)%p, ix(6), s(7)%p, ix(7), s(8)%p, ix(8), s(9)%p, ix(9), s(10)%p, ix(10), s(11)%p, ix(11), &
        s(12)%p, ix(12), s(13)%p, ix(13), s(14)%p, ix(14), s(15)%p, ix(15), s(16)%p, ix(16), s(17)%p, ix(17), &
        s(18)%p, ix(18), s(19)%p, ix(19), 'end')
    case (20); call cg_gorel_f(fn, ier, s(1)%p, ix(1), s(2)%p, ix(2), s(3)%p, ix(3), s(4)%p, ix(4), s(5)%p, &
        ix(5), s(6)%p, ix(6), s(7)%p, ix(7), s(8)%p, ix(8), s(9)%p, ix(9), s(10)%p, ix(10), s(11)%p, ix(11), &
        s(12)%p, ix(12), s(13)%p, ix(13), s(14)%p, ix(14), s(15)%p, ix(15), s(16)%p, ix(16), s(17)%p, ix(17), &
        s(18)%p, ix(18), s(19)%p, ix(19), s(20)%p, ix(20), 'end')
    case default; call cg_gorel_f(fn, ier, 'end')
    end select
    call ier_out(ier); call nl()
  end subroutine

end module c20f_goto20
