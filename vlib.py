"""vlib.py -- shared machinery of the /verif checks (build, Coq, model runner, verdicts, evidence).

Every check is  ./check <Cxx> [--tier quick|thorough] [--replay FILE]  and follows DESIGN.md 1.3:
build the implementation from /repo's working tree, re-check the Coq obligations, run the
correspondence (extracted model vs implementation), and -- only when an obligation or the
correspondence breaks -- search for a concrete failing input of the *property* with an oracle that
does not go through the model.
"""
import fcntl, hashlib, json, os, random, re, shutil, subprocess, sys, time

ROOT = os.path.dirname(os.path.abspath(__file__))
REPO = os.environ.get("VERIF_REPO", "/repo")
BUILD = os.path.join(ROOT, ".build")
WORK = os.path.join(ROOT, ".work")
COQ = os.path.join(ROOT, "coq")
_TAG = "" if REPO == "/repo" else "_" + hashlib.sha1(REPO.encode()).hexdigest()[:8]
IMPL = os.path.join(BUILD, "cgns" + _TAG)        # a scratch worktree (VERIF_REPO=...) gets its own build dir
HDIR = os.path.join(BUILD, "h" + _TAG)
SAN_FLAGS = "-O1 -g -fno-omit-frame-pointer -fsanitize=address,undefined -fno-sanitize-recover=undefined"
if os.environ.get("VERIF_COV"):          # tools/coverage.sh: which functions of the library do the checks execute at all
    SAN_FLAGS += " --coverage"
IMPL_CFLAGS = SAN_FLAGS + " -DCGNS_VERIF -w"
HDF5_INC = "/usr/include/hdf5/serial"
HDF5_LIBS = ["-L/usr/lib/x86_64-linux-gnu/hdf5/serial", "-lhdf5", "-lm", "-ldl", "-lz"]
ASAN_ENV = {"ASAN_OPTIONS": "detect_leaks=0:abort_on_error=0:exitcode=99:allocator_may_return_null=1",
            "UBSAN_OPTIONS": "print_stacktrace=1:halt_on_error=1:exitcode=98"}


class Lock:
    def __init__(self, name):
        os.makedirs(BUILD, exist_ok=True)
        self.path = os.path.join(BUILD, name + ".lock")
    def __enter__(self):
        self.f = open(self.path, "w")
        fcntl.flock(self.f, fcntl.LOCK_EX)
    def __exit__(self, *a):
        fcntl.flock(self.f, fcntl.LOCK_UN)
        self.f.close()


def sh(cmd, timeout=3600, cwd=None, env=None, input=None):
    e = dict(os.environ)
    if env:
        e.update(env)
    p = subprocess.run(cmd, shell=isinstance(cmd, str), cwd=cwd, env=e, input=input,
                       stdout=subprocess.PIPE, stderr=subprocess.STDOUT, timeout=timeout, text=True,
                       errors="replace")
    return p.returncode, p.stdout


class Infra(Exception):
    """the machinery itself could not run (exit 2: not a verdict)"""


# ----------------------------------------------------------------------------- implementation build
def build_impl():
    """(Re)build libcgns.a + tools from /repo's current working tree with sanitizers and hooks on."""
    with Lock("impl" + _TAG):
        if not os.path.exists(os.path.join(IMPL, "build.ninja")):
            rc, out = sh(["cmake", "-G", "Ninja", "-S", REPO, "-B", IMPL, "-DCMAKE_BUILD_TYPE=None",
                          "-DCMAKE_C_FLAGS=" + IMPL_CFLAGS, "-DCGNS_BUILD_SHARED=OFF", "-DCGNS_ENABLE_HDF5=ON",
                          "-DCGNS_ENABLE_64BIT=ON", "-DCGNS_ENABLE_TESTS=OFF", "-DCGNS_BUILD_CGNSTOOLS=OFF",
                          "-DCGNS_ENABLE_FORTRAN=OFF"])
            if rc != 0:
                raise Infra("cmake configure failed:\n" + out[-3000:])
        rc, out = sh(["cmake", "--build", IMPL, "-j16"])
        if rc != 0:
            raise Infra("implementation does not build from /repo working tree:\n" + out[-4000:])
    return os.path.join(IMPL, "src", "libcgns.a")


def build_harness(name, sources, link_lib=True, extra=None, includes=None):
    """Compile a C harness (from /verif/harness and/or /repo sources) against the fresh library."""
    out = os.path.join(HDIR, name)
    os.makedirs(os.path.dirname(out), exist_ok=True)
    cmd = ["cc"] + SAN_FLAGS.split() + ["-w", "-DCGNS_VERIF", "-I" + os.path.join(REPO, "src"),
           "-I" + os.path.join(IMPL, "src"), "-I" + os.path.join(REPO, "src", "adf"),
           "-I" + os.path.join(REPO, "src", "adfh"), "-I" + HDF5_INC, "-I" + os.path.join(ROOT, "harness")]
    for i in includes or []:
        cmd.append("-I" + i)
    # the compiler writes to a private file that replaces the binary atomically: another check may be running the
    # old binary at this very moment (cgio_h is shared by C02, C03, C16)
    tmp = "%s.tmp.%d" % (out, os.getpid())
    cmd += ["-o", tmp] + [s if os.path.isabs(s) else os.path.join(ROOT, "harness", s) for s in sources]
    if link_lib:
        cmd += [os.path.join(IMPL, "src", "libcgns.a")] + HDF5_LIBS
    cmd += extra or []
    with Lock("h_" + name + _TAG):
        rc, o = sh(cmd)
        if rc == 0:
            os.replace(tmp, out)
    if rc != 0:
        if os.path.exists(tmp):
            os.unlink(tmp)
        raise Infra("harness %s does not compile:\n%s" % (name, o[-4000:]))
    return out


# ----------------------------------------------------------------------------- Coq
FORBIDDEN = re.compile(r"\b(Admitted|admit|Axiom|Parameter|Conjecture|Admit Obligations|bypass_check|"
                       r"Unset Guard Checking|Unset Positivity Checking|Unset Universe Checking|type-in-type)\b")


COQ_WARN = "-notation-overridden,-deprecated-hint-without-locality,-deprecated-instance-without-locality"


def gen_coqproject():
    """coq/_CoqProject lists every .v file of the development (generated, never committed); coqdep orders them.
    Each Extract_<engine>.v writes extracted/<engine>/model.ml, so those directories must exist."""
    vs = sorted(f for f in os.listdir(COQ) if f.endswith(".v"))
    txt = "-Q . CgnsV\n-arg -w -arg %s\n" % COQ_WARN + "\n".join(vs) + "\n"
    p = os.path.join(COQ, "_CoqProject")
    changed = not os.path.exists(p) or open(p).read() != txt
    if changed:
        open(p, "w").write(txt)
    for f in vs:
        if f.startswith("Extract_"):
            os.makedirs(os.path.join(COQ, "extracted", f[len("Extract_"):-2]), exist_ok=True)
    if changed or not os.path.exists(os.path.join(COQ, "Makefile")):
        sh("coq_makefile -f _CoqProject -o Makefile", cwd=COQ)


def coq_setup():
    """Full .vo build of the development (never -vos)."""
    with Lock("coq"):
        gen_coqproject()
        rc, out = sh("timeout 3000 make -k -j16 2>&1", cwd=COQ, timeout=3200)
    if rc != 0:
        errs = re.findall(r'File "([^"]+)", line (\d+)', out)
        raise Infra("Coq development does not build (%s):\n%s" % (errs[:5], out[-4000:]))
    return out


def coq_deps_closure(pid):
    """.v files Properties_<pid>.v transitively depends on (inside the development), itself included."""
    seen, todo = set(), ["Properties_%s.v" % pid, "Extract_%s.v" % pid.lower()]
    while todo:
        f = todo.pop()
        if f in seen or not os.path.exists(os.path.join(COQ, f)):
            continue
        seen.add(f)
        txt = strip_coq_comments(open(os.path.join(COQ, f), errors="replace").read())
        for d in re.findall(r"From\s+CgnsV\s+Require\s+(?:Import\s+|Export\s+)?([^.]*)\.", txt):
            for m in d.split():
                todo.append(m + ".v")
        for d in re.findall(r"Require\s+(?:Import\s+|Export\s+)?((?:CgnsV\.\w+\s*)+)\.", txt):
            for m in d.split():
                todo.append(m.split(".")[-1] + ".v")
    return sorted(seen)


def coq_forbidden_scan(pid=None):
    """grep the development (or, with pid, everything Properties_<pid>.v / Extract_<pid>.v depend on) for
    axioms / admits / disabled checks; comments are stripped first."""
    hits = []
    files = coq_deps_closure(pid) if pid else sorted(f for f in os.listdir(COQ) if f.endswith(".v"))
    for f in files:
        txt = strip_coq_comments(open(os.path.join(COQ, f), errors="replace").read())
        for i, l in enumerate(txt.split("\n")):
            if FORBIDDEN.search(l):
                hits.append("%s:%d:%s" % (f, i + 1, l.strip()))
    return hits


def strip_coq_comments(s):
    out, depth, i = [], 0, 0
    while i < len(s):
        if s.startswith("(*", i):
            depth += 1; i += 2
        elif s.startswith("*)", i) and depth > 0:
            depth -= 1; i += 2
        else:
            if depth == 0:
                out.append(s[i])
            elif s[i] == "\n":
                out.append("\n")
            i += 1
    return "".join(out)


def coq_check_properties(pid, gen_files=None):
    """Re-check Properties_<pid>.v with the kernel (after regenerated Gen files, if any).

    Returns dict(ok, theorems, failed, assumptions, log).  `make` brings every dependency up to date
    (a no-op when nothing changed); the property file itself is always recompiled with coqc so that its
    Print Assumptions output is captured from this run."""
    pf = "Properties_%s.v" % pid
    src = open(os.path.join(COQ, pf)).read()
    theorems = re.findall(r"^\s*(?:Theorem|Lemma|Corollary)\s+(\w+)", strip_coq_comments(src), re.M)
    with Lock("coq"):
        gen_coqproject()
        deps = re.findall(r"^\s*From\s+CgnsV\s+Require\s+(?:Import|Export)\s+([^.]*)\.", src, re.M)
        targets = []
        for d in deps:
            for m in d.split():
                targets.append(m.replace(".", "/") + ".vo")
        t0 = time.time()
        rc, out = sh(["timeout", "2400", "make", "-k", "-j16"] + targets, cwd=COQ, timeout=2500)
        log = out
        if rc == 0:
            rc, out = sh(["timeout", "1200", "coqc", "-Q", ".", "CgnsV", "-w", COQ_WARN, pf], cwd=COQ, timeout=1300)
            log += out
    failed = []
    if rc != 0:
        m = re.search(r'File "\./?([^"]+)", line (\d+)', log)
        where = "%s:%s" % (m.group(1), m.group(2)) if m else "?"
        # name the obligation: the last Theorem/Lemma/Definition before the failing line
        name = "?"
        if m:
            try:
                lines = open(os.path.join(COQ, m.group(1))).read().split("\n")[: int(m.group(2))]
                for l in reversed(lines):
                    mm = re.match(r"\s*(?:Theorem|Lemma|Corollary|Definition|Example|Fact)\s+(\w+)", l)
                    if mm:
                        name = mm.group(1); break
            except OSError:
                pass
        failed.append({"obligation": name, "where": where, "message": log[-1500:]})
    assumptions = parse_assumptions(log)
    return {"ok": rc == 0, "theorems": theorems, "failed": failed, "assumptions": assumptions, "log": log,
            "wall_s": time.time() - t0}


def parse_assumptions(log):
    """Collect what Print Assumptions printed: 'Closed under the global context' or axiom names."""
    res, cur = [], None
    for l in log.split("\n"):
        if l.startswith("Closed under the global context"):
            res.append("closed")
        elif l.startswith("Axioms:"):
            cur = []
            res.append(cur)
        elif cur is not None:
            # an entry is "name : type" on one line, or "name" alone followed by an indented "  : type" continuation
            m = re.match(r"^([A-Za-z_][\w.']*)\s*(:|$)", l)
            if m:
                cur.append(m.group(1))
            elif l.strip() == "" or not l.startswith(" "):
                if not l.startswith(" ") and l.strip() and not m:
                    cur = None
    axioms = sorted({a for r in res if isinstance(r, list) for a in r})
    return {"closed": sum(1 for r in res if r == "closed"), "with_axioms": sum(1 for r in res if isinstance(r, list)),
            "axioms": axioms}


# ----------------------------------------------------------------------------- extracted model
def build_modelrun(engine):
    """coq/extracted/<engine>/model.ml (written by Extract_<engine>.v during the Coq build) + ocaml/zutil.ml +
    ocaml/eng_<engine>.ml (must define  run : unit -> unit) -> .build/ocaml/<engine>/modelrun"""
    d = os.path.join(BUILD, "ocaml", engine)
    os.makedirs(d, exist_ok=True)
    ex = os.path.join(COQ, "extracted", engine)
    with Lock("coq"):
        gen_coqproject()
        rc, out = sh(["timeout", "2400", "make", "-j16", "Extract_%s.vo" % engine], cwd=COQ, timeout=2500)
    if rc != 0 or not os.path.exists(os.path.join(ex, "model.ml")):
        raise Infra("extraction of engine %s failed:\n%s" % (engine, out[-3000:]))
    srcs = [os.path.join(ex, "model.mli"), os.path.join(ex, "model.ml"), os.path.join(ROOT, "ocaml", "zutil.ml"),
            os.path.join(ROOT, "ocaml", "eng_%s.ml" % engine)]
    exe = os.path.join(d, "modelrun")
    with Lock("ocaml_" + engine):
        stamp = hashlib.sha1(b"".join(open(x, "rb").read() for x in srcs)).hexdigest()
        sf = os.path.join(d, "stamp")
        if os.path.exists(exe) and os.path.exists(sf) and open(sf).read() == stamp:
            return exe
        for x in srcs:
            shutil.copy(x, d)
        open(os.path.join(d, "main.ml"), "w").write("let () = Eng_%s.run ()\n" % engine)
        rc, out = sh(["ocamlfind", "ocamlopt", "-w", "-a", "-o", "modelrun"] + [os.path.basename(x) for x in srcs] +
                     ["main.ml"], cwd=d)
        if rc != 0:
            raise Infra("modelrun for %s does not build:\n%s" % (engine, out[-3000:]))
        open(sf, "w").write(stamp)
    return exe


def run_model(engine, script, args=(), timeout=600):
    """Run the extracted model of `engine` on a script (stdin); returns its output lines."""
    exe = os.path.join(BUILD, "ocaml", engine, "modelrun")

    def big_stack():          # extracted list functions are not tail recursive; lift the 8 MB default stack
        import resource
        soft, hard = resource.getrlimit(resource.RLIMIT_STACK)
        want = 4 << 30
        resource.setrlimit(resource.RLIMIT_STACK, (want if hard == resource.RLIM_INFINITY else min(want, hard), hard))
    p = subprocess.run([exe] + list(args), input=script, stdout=subprocess.PIPE, stderr=subprocess.PIPE, text=True,
                       timeout=timeout, preexec_fn=big_stack)
    if p.returncode != 0:
        raise Infra("modelrun %s failed: %s" % (engine, p.stderr[-2000:]))
    lines = p.stdout.split("\n")
    if lines and lines[-1] == "":
        lines.pop()
    return lines


def asan_stack(stderr, n=6):
    """named, non-interceptor frames of the first sanitizer stack in `stderr` (innermost first)"""
    out = []
    for m in re.finditer(r"#\d+ 0x[0-9a-f]+ in (\w+)", stderr):
        fn = m.group(1)
        if fn.startswith("__interceptor") or fn.startswith("__asan") or fn.startswith("__sanitizer"):
            continue
        out.append(fn)
        if len(out) >= n or fn == "main":
            break
    return out


def run_impl(exe, script, args=(), timeout=120, cwd=None, env=None, want_stack=False):
    """Run an implementation-side harness in its own process.  Returns (lines, outcome) where outcome is
    ok | asan:<summary> | ubsan | signal:<n> | timeout | exit:<n>.  A sanitizer abort, a signal or a hang
    is a per-case outcome, never the end of the run.  With want_stack a third value is returned: the named
    frames of the sanitizer stack (for narrow known-finding keys)."""
    e = dict(os.environ); e.update(ASAN_ENV)
    if env:
        e.update(env)

    def ret(lines, outcome, stack=()):
        return (lines, outcome, list(stack)) if want_stack else (lines, outcome)
    try:
        p = subprocess.run([exe] + list(args), input=script, stdout=subprocess.PIPE, stderr=subprocess.PIPE,
                           text=True, errors="replace", timeout=timeout, cwd=cwd, env=e)
    except subprocess.TimeoutExpired as t:
        so = t.stdout.decode(errors="replace") if isinstance(t.stdout, bytes) else (t.stdout or "")
        return ret(so.split("\n"), "timeout")
    lines = p.stdout.split("\n")
    if lines and lines[-1] == "":
        lines.pop()
    rc = p.returncode
    if rc == 0:
        return ret(lines, "ok")
    if "AddressSanitizer" in p.stderr or rc == 99:
        m = re.search(r"ERROR: AddressSanitizer: (\S+)", p.stderr)
        fn = re.search(r"#\d+ 0x[0-9a-f]+ in (\w+)", p.stderr)
        return ret(lines, "asan:%s@%s" % (m.group(1) if m else "?", fn.group(1) if fn else "?"), asan_stack(p.stderr))
    if "runtime error" in p.stderr or rc == 98:
        m = re.search(r"runtime error: ([^\n]*)", p.stderr)
        return ret(lines, "ubsan:%s" % (m.group(1)[:80] if m else "?"), asan_stack(p.stderr))
    if rc < 0:
        return ret(lines, "signal:%d" % (-rc))
    return ret(lines, "exit:%d" % rc)


# ----------------------------------------------------------------------------- known findings
def load_known(pid):
    known, fixed = [], []
    p = os.path.join(ROOT, "KNOWN_FINDINGS.txt")
    if os.path.exists(p):
        for l in open(p):
            l = l.strip()
            m = re.match(r"known:\s+property=(\w+)\s+key=(\S+)\s+(.*)", l)
            if m and m.group(1) == pid:
                known.append({"key": m.group(2), "what": m.group(3)})
            m = re.match(r"fixed:\s+property=(\w+)\s+(\S+)\s+(.*)", l)
            if m and m.group(1) == pid:
                fixed.append({"commit": m.group(2), "what": m.group(3)})
    return known, fixed


# ----------------------------------------------------------------------------- a running check
class Check:
    def __init__(self, pid, tier, seed):
        self.pid, self.tier, self.seed = pid, tier, seed
        self.t0 = time.time()
        self.rng = random.Random(seed * 1000003 + int(re.sub(r"\D", "", pid)))
        # a run against a scratch copy (VERIF_REPO) keeps its work files, replays and evidence apart from /repo's
        self.work = os.path.join(WORK, pid + _TAG)
        self.outdir = ROOT if not _TAG else os.path.join(WORK, "out" + _TAG)
        shutil.rmtree(self.work, ignore_errors=True)
        os.makedirs(self.work, exist_ok=True)
        os.makedirs(os.path.join(self.outdir, "replays"), exist_ok=True)
        os.makedirs(os.path.join(self.outdir, "evidence"), exist_ok=True)
        self.violations = []          # (replay path, nofail flag)
        self.known_hits = {}          # key -> what
        self.known, self.fixed = load_known(pid)
        self.cov = {"evaluations": 0, "distinct_nontrivial": 0, "samples": [], "traces_validated_against_impl": 0,
                    "obligations": 0, "discharged": 0, "trusted_base": [], "checker_cmd": "", "rule": ""}
        self.assumptions = []
        self.level = "proof"
        self.distinct = set()
        self.extra = {}

    # --- verdicts
    def violation(self, replay, nofail=False, tag=None):
        """Record a violation; `replay` is a JSON-able dict describing the failing case (or the broken
        obligation when nofail)."""
        body = json.dumps(replay, sort_keys=True, indent=1)
        h = hashlib.sha1(body.encode()).hexdigest()[:10]
        path = os.path.join(self.outdir, "replays", "%s-%s.json" % (self.pid, h))
        replay = dict(replay)
        replay.setdefault("property", self.pid)
        replay.setdefault("seed", self.seed)
        replay.setdefault("tier", self.tier)
        if getattr(self, "layer", None):
            replay.setdefault("layer", self.layer)          # which second layer (run_extra) produced the record
        open(path, "w").write(json.dumps(replay, sort_keys=True, indent=1))
        self.violations.append((path, nofail))
        print("VIOLATION property=%s replay=%s%s" % (self.pid, path, " no-failing-input-found" if nofail else ""),
              flush=True)

    def known_match(self, key):
        for k in self.known:
            if k["key"] == key:
                return k
        return None

    def finding(self, key, replay):
        """A concrete failing input with canonical key `key`: KNOWN-FINDING if listed, else VIOLATION."""
        k = self.known_match(key)
        if k:
            if key not in self.known_hits:
                self.known_hits[key] = k["what"]
                print("KNOWN-FINDING: property=%s key=%s %s" % (self.pid, key, k["what"]), flush=True)
            return False
        replay = dict(replay); replay["finding_key"] = key
        self.violation(replay)
        return True

    def case(self, nontrivial_key=None, sample=None):
        self.cov["evaluations"] += 1
        if nontrivial_key is not None:
            self.distinct.add(nontrivial_key)
        if sample is not None and len(self.cov["samples"]) < 5:
            self.cov["samples"].append(sample)

    def proof_result(self, res, checker_cmd, extra_obligations=0):
        """Fold the result of coq_check_properties into the evidence; broken obligations are returned."""
        n = len(res["theorems"]) + extra_obligations
        self.cov["obligations"] += n
        self.cov["discharged"] += n if res["ok"] else max(0, n - max(1, len(res["failed"])))
        self.cov["checker_cmd"] = checker_cmd
        self.extra["print_assumptions"] = res["assumptions"]
        self.extra["theorems"] = res["theorems"]
        self.extra["coq_wall_s"] = round(res.get("wall_s", 0), 1)
        return res["failed"]

    def finish(self):
        self.cov["distinct_nontrivial"] = len(self.distinct)
        ev = {"property_id": self.pid, "tier": self.tier, "seed": self.seed, "level": self.level,
              "coverage": dict(self.cov, **self.extra), "assumptions": self.assumptions,
              "wall_s": round(time.time() - self.t0, 2), "violations": len(self.violations),
              "known_findings_seen": sorted(self.known_hits)}
        if not ev["coverage"]["samples"]:
            ev["coverage"]["samples"] = ["(no case was run)"]
        open(os.path.join(self.outdir, "evidence", self.pid + ".json"), "w").write(json.dumps(ev, indent=1, sort_keys=True))
        return 1 if self.violations else 0


def ddmin(items, fails, max_tests=400):
    """Delta debugging: a (locally) minimal sublist of `items` on which fails(sublist) is still True."""
    n, tests = 2, 0
    items = list(items)
    while len(items) >= 2 and tests < max_tests:
        chunk = max(1, len(items) // n)
        subsets = [items[i:i + chunk] for i in range(0, len(items), chunk)]
        reduced = False
        for i in range(len(subsets)):
            comp = [x for j, s in enumerate(subsets) if j != i for x in s]
            tests += 1
            if comp and fails(comp):
                items, n, reduced = comp, max(n - 1, 2), True
                break
        if not reduced:
            if n >= len(items):
                break
            n = min(len(items), n * 2)
    return items


def first_divergence(a, b):
    for i in range(max(len(a), len(b))):
        x = a[i] if i < len(a) else None
        y = b[i] if i < len(b) else None
        if x != y:
            return i, x, y
    return None
